"""C20 -- system lifecycle: registration, single initialisation, late-created assets."""
import ast
import itertools

from .. import AnalysisError
from ..report import Ob
from ..cfg import calls_at, call_attr, is_self_attr, own_exprs, walk_now
from ..state import Analysis, State, TOP
from ..effects import Effects, must_defs, reaching_writes
from ..norm import FrameEnv, ctext, subst
from .. import inventory as inv

EXPLANATION = '''
Static analysis of simprocesd/model/system.py, simprocesd/model/factory_floor/asset.py and the constructor / initialize
chains of every class of the Asset hierarchy (resolved through the real MRO, calls on self/super() inlined).
Decided: (C20.1a) for every non-transitory asset class, every field its initialize() chain may read before writing it is
definitely written on every constructor path that reaches the registration point (System.add_asset -> initialize), so an
asset created while the simulation runs is initialised against fully constructed state; (C20.1b) no field written by the
initialize() chain is written again by the part of the constructor that runs after registration (unless with the
identical constant the initialize chain leaves there), so a late-created asset keeps what initialisation set;
(C20.2) Asset.__init__ registers iff not transitory, every constructor path of a non-transitory class registers,
Part and Batch are transitory; (C20.3) add_asset raises without an active system, appends only if absent and initialises
immediately, with the active system's environment, iff the simulation is initialised; (C20.4) simulate raises first
when it is not the active system, initialises the resource manager and every registered asset exactly under "not yet
initialised", then sets the flag, and reaches env.run on every call; (C20.5) Asset.initialize refuses a second
initialisation before assigning the environment; (C20.6) find_assets returns, in registration order, exactly the
assets for which all four (filter absent or match) disjuncts hold, with an exact-type and an isinstance match;
(C20.7) System() installs itself as the active system and _simulation_helper builds a fresh System per index.
NOT decided: behavioural equivalence of a late-created asset with a twin created before the start.
'''
ASSUMPTIONS = ['user subclasses of Asset follow the same constructor discipline (checked only for the classes of the package)',
               'calls on other objects made by a constructor after registration do not write the fields of self']
MIN_INSTANCES = 120


def _is_marker(g, n):
    """the registration point: the initialize() call made by System.add_asset for the asset under construction, or an
    opaque System.add_asset(self) call when add_asset was not inlined"""
    for cl in calls_at(g, n):
        nm = call_attr(cl)
        if nm == 'add_asset' and cl.args and ast.unparse(cl.args[0]) == 'self':
            return True
        if nm == 'initialize' and n.frame is not None and n.frame.func.name == 'add_asset':
            return True
        if n.frame is not None and n.frame.func.name == 'add_asset' and _forwards_initialize(g, cl):
            return True
    return False


def _forwards_initialize(g, cl):
    """a call, made by add_asset, of a method that only one class defines and that does nothing but `<parameter>.initialize(...)`
    (`self._initialize_asset(asset)`): the initialize() call under another name"""
    P = getattr(g, 'P', None) or _FWD.get('P')
    if P is None or not isinstance(cl.func, ast.Attribute):
        return False
    from ..cfg import _unique_methods
    um = _unique_methods(P).get(cl.func.attr)
    if not um:
        return False
    body = [s_ for s_ in um[1].body if not (isinstance(s_, ast.Expr) and isinstance(s_.value, ast.Constant))]
    params = [a.arg for a in um[1].args.args]
    return len(body) == 1 and isinstance(body[0], ast.Expr) and isinstance(body[0].value, ast.Call) and isinstance(body[0].value.func, ast.Attribute) \
        and body[0].value.func.attr == 'initialize' and isinstance(body[0].value.func.value, ast.Name) and body[0].value.func.value.id in params[1:]


_FWD = {}


def _rhs_text(rhs):
    return None if rhs is None else ast.unparse(rhs).replace(' ', '')


def _const_like(rhs):
    """right-hand sides whose value does not depend on when they are evaluated within one instant"""
    if rhs is None:
        return False
    if isinstance(rhs, ast.Constant):
        return True
    if isinstance(rhs, (ast.List, ast.Dict, ast.Tuple, ast.Set)):
        return not (getattr(rhs, 'elts', None) or getattr(rhs, 'keys', None))
    if isinstance(rhs, ast.UnaryOp) and isinstance(rhs.operand, ast.Constant):
        return True
    t = ast.unparse(rhs).replace(' ', '')
    return t in ('self._env.now', 'self.env.now', "float('inf')")


def ordering(ctx, oa, ob, o2):
    P = ctx.P
    _FWD['P'] = P
    eff = Effects(P)
    asset = P.cls('Asset')
    classes = sorted(P.subclasses(asset), key=lambda c: c.name)
    transitory, registered = [], []
    noexc = lambda l: l != 'exc'     # noqa: E731
    for c in classes:
        g = ctx.graph(c, '__init__')
        live = g.reach([g.entry], follow=noexc)
        markers = [nid for nid in live if _is_marker(g, g.nodes[nid])]
        # does the constructor chain reach Asset.__init__ at all / is the registration pruned as transitory?
        reg_calls = [nid for nid in live if g.nodes[nid].kind == 'call_enter' and g.nodes[nid].frame.func.name == 'add_asset'] + \
                    [nid for nid in live if any(call_attr(cl) == 'add_asset' for cl in calls_at(g, g.nodes[nid]))]
        o2.count()
        if not reg_calls:
            # transitory by design (is_transitory=True reaches Asset.__init__) -- or a constructor chain that never runs Asset.__init__ at all
            reaches_base = c is asset or any(g.nodes[nid].kind == 'call_enter' and g.nodes[nid].frame.defcls is asset and g.nodes[nid].frame.func.name == '__init__' for nid in live)
            if not reaches_base:
                o2.fail(P, f'{c.name}.__init__', 'super().__init__(...)', f'the constructor chain of {c.name} never runs Asset.__init__: the asset gets no id, is not registered with the System '
                        'and is never initialised', file=c.mod.path, line=c.node.lineno)
            transitory.append(c.name)
            continue
        registered.append(c.name)
        o2.witness(c.name)
        # every normal constructor path registers
        first = set(reg_calls)
        if c is not asset and g.exit in g.reach([g.entry], avoid=frozenset(first), follow=noexc):
            p = g.shortest_path(g.entry, g.exit, follow=noexc)
            o2.fail(P, f'{c.name}.__init__', 'System.add_asset(self)', f'a constructor path of the non-transitory class {c.name} does not register with the System',
                    file=c.mod.path, line=c.node.lineno)
        if not markers:
            raise AnalysisError(f'{c.name}: System.add_asset is reached but its initialize() call was not found')
        IN = must_defs(g, eff)
        pre = None
        for m in markers:
            pre = IN[m] if pre is None else (pre & IN[m])
        # --- (a) reads of the initialize chain
        gi = ctx.graph(c, 'initialize')
        INi = must_defs(gi, eff, start_defs=pre)
        init_writes = {}
        nreads = 0
        for n in gi.nodes.values():
            if INi[n.id] is None:
                continue
            for f in eff.node_reads(n):
                nreads += 1
                oa.count()
                if f not in INi[n.id]:
                    # where does the constructor set it?
                    later = [m for m in g.nodes.values() if f in eff.field_writes(m)]
                    hint = f'; the constructor sets it at {later[0].frame.qual}:{later[0].line}, after registration' if later else '; no constructor sets it'
                    oa.fail(P, f'{c.name}.initialize', f'{f} read in {n.frame.qual}: {n.src()}',
                            f'{c.name}.initialize reads self.{f} (via {" > ".join(n.frame.stack())}) which is not definitely set when System.add_asset '
                            f'initialises a {c.name} created while the simulation is running{hint}', node=n)
            for f, kind, rhs in eff.write_targets(n):
                init_writes.setdefault(f, []).append((n, kind, rhs))
        oa.witness(c.name)
        if len(oa.samples) < 4:
            oa.sample({'class': c.name, 'fields_set_before_registration': len(pre), 'reads_in_initialize_chain': nreads,
                       'constructor_nodes': len(g.nodes), 'initialize_nodes': len(gi.nodes)})
        # --- (b) writes after registration, decided on the "late creation" execution: the constructor runs up to the
        # registration point, initialize() runs there, and the rest of the constructor follows in the state initialize left
        post = g.reach(markers, follow=noexc) - set(markers)
        cand = sorted({f for nid in post for f, _, _ in eff.write_targets(g.nodes[nid]) if f in init_writes})
        late_states = {}
        if cand:
            ifn = gi.top.func
            env_param = [a.arg for a in ifn.args.args][1] if len(ifn.args.args) > 1 else None
            an1 = Analysis(P, g, cand)
            an2 = Analysis(P, gi, cand)

            def late(an_, n, before, after, markers=frozenset(markers)):
                if n.id not in markers or 'late' in after.flags:
                    return after
                s = State(after.fields)
                if env_param:
                    s.locals[(gi.top.id, env_param)] = 'S'
                outs = {}
                for x in ctx.explore(an2, [s]).exits():
                    y = State(x.fields, after.locals, after.flags | {'late'})
                    outs[y.key()] = y
                return list(outs.values())
            an1.node_hooks.append(late)
            res = ctx.explore(an1, [State({f: TOP for f in cand})])
            for nid in post:
                late_states[nid] = [st for st in res.at(nid) if 'late' in st.flags]
        RW = reaching_writes(gi, eff, set(init_writes))
        at_exit = RW.get(gi.exit) or {}
        for nid in sorted(post):
            n = g.nodes[nid]
            for f, kind, rhs in eff.write_targets(n):
                if f not in init_writes:
                    continue
                ob.count()
                ob.witness((c.name, f))
                if not late_states.get(nid):
                    if len(ob.notes) < 12:
                        ob.notes.append(f'{c.name}.{f}: the write at {n.frame.qual}:{n.line} is unreachable once initialize() has run (guarded) -- benign')
                    continue
                finals = {_rhs_text(gi.nodes[w].ast.value) if isinstance(gi.nodes[w].ast, ast.Assign) else None for w in at_exit.get(f, ())}
                only_plain = all(k == 'store' for _, k, _ in init_writes[f])
                if kind == 'store' and only_plain and _const_like(rhs) and finals == {_rhs_text(rhs)}:
                    if len(ob.notes) < 12:
                        ob.notes.append(f'{c.name}.{f}: re-assigned after registration with the identical constant {_rhs_text(rhs)} (benign)')
                    continue
                w = init_writes[f][0][0]
                ob.fail(P, f'{c.name}.__init__', f'{f} written after registration in {n.frame.qual}: {n.src()}',
                        f'self.{f} is set by {c.name}.initialize ({w.frame.qual}:{w.line} `{w.src()}`) and written again by the constructor after the asset '
                        f'registered with the System: an asset created while the simulation is running loses what initialisation set',
                        node=n, path=res.path_lines(nid, late_states[nid][0]))
        ob.count()
    oa.require(len(registered) >= 15, f'only {len(registered)} non-transitory asset classes found (18 on the pinned tree)')
    oa.stats['non_transitory'] = registered
    oa.stats['transitory'] = transitory
    # Part and Batch must be transitory (they are initialised by the source that creates them)
    for nm in ('Part', 'Batch'):
        o2.count()
        if nm not in transitory:
            cc = P.cls(nm)
            o2.fail(P, f'{nm}.__init__', 'super().__init__(..., is_transitory=True)', f'{nm} registers with the System (parts are transitory: the System would keep and re-initialise them)',
                    file=cc.mod.path, line=cc.node.lineno)
    # Asset.__init__ registers iff not transitory
    g = ctx.graph(asset, '__init__')
    fn = P.method(asset, '__init__')[1]
    params = [a.arg for a in fn.args.args]
    o2.require('is_transitory' in params, 'Asset.__init__ has no is_transitory parameter')
    if 'is_transitory' in params:
        an = Analysis(P, g, [])

        def hook(an_, n, before, after):
            if n.kind == 'call_enter' and n.frame.func.name == 'add_asset':
                return after.with_flag('registered')
            if any(call_attr(cl) == 'add_asset' for cl in calls_at(g, n)):
                return after.with_flag('registered')
            return after
        an.node_hooks.append(hook)
        for tv in 'TF':
            s0 = State({})
            s0.locals[(g.top.id, 'is_transitory')] = tv
            res = ctx.explore(an, [s0])
            o2.require(res.exits(), 'Asset.__init__ has no normal exit')
            for st in res.exits():
                o2.count()
                o2.witness(('Asset.__init__', tv))
                if ('registered' in st.flags) != (tv == 'F'):
                    o2.fail(P, 'Asset.__init__', 'if is_transitory == False: System.add_asset(self)',
                            f'with is_transitory={tv == "T"} the asset is {"" if "registered" in st.flags else "not "}registered', file=asset.mod.path, line=fn.lineno,
                            path=res.path_lines(g.exit, st))
    return registered


def _ghost_refiner(specs):
    """specs: list of (ghost, matcher(test, frame) -> True (test <=> ghost) | False (test <=> not ghost) | None)"""
    def h(an, test, truth, st, frame):
        for ghost, m in specs:
            r = m(test, frame)
            if r is None:
                continue
            val = truth if r else not truth
            want = 'T' if val else 'F'
            cur = st.fields.get(ghost, TOP)
            if cur in ('T', 'F') and cur != want:
                return None
            return st.with_field(ghost, want) if cur != want else st
        return NotImplemented
    return h


def _none_cmp(test, is_subject):
    """True if test is `<subject> == None`, False if `<subject> != None`, else None (also the bare truthiness form)"""
    if isinstance(test, ast.Compare) and len(test.ops) == 1:
        l, r, op = test.left, test.comparators[0], test.ops[0]
        if isinstance(l, ast.Constant) and l.value is None:
            l, r = r, l
        if isinstance(r, ast.Constant) and r.value is None and is_subject(l):
            if isinstance(op, (ast.Eq, ast.Is)):
                return True
            if isinstance(op, (ast.NotEq, ast.IsNot)):
                return False
    return None


def ct(e, frame):
    """canonical spelling of an expression: single-definition locals (`env = self._env`, `active = System._instance`) and the parameters
    of inlined helpers are substituted"""
    return ast.unparse(subst(e, FrameEnv(frame)))



def init_loop_body(g, head):
    """the body of the loop `for x in <registry>` is, on every path, exactly one call x.initialize(<environment of the system>) and nothing else
    that acts: decided on the supergraph, so a one-line helper `self._initialize_asset(x)` is seen through"""
    v = head.ast.target.id
    starts = [m for l, m in g.succ[head.id] if l == 'T']
    region = g.reach(starts, avoid={head.id}, follow=lambda l: l != 'exc')
    if g.exit in region or g.raise_exit in region:
        return False                      # the body can leave the loop
    inits = 0
    for nid in region:
        n = g.nodes[nid]
        if n.kind in ('cond', 'for', 'while'):
            return False                  # some assets could be skipped
        for cl in calls_at(g, n):
            if call_attr(cl) != 'initialize':
                return False
            ok = ct(cl.func.value, n.frame) == v and len(cl.args) == 1 and not cl.keywords and ct(cl.args[0], n.frame) in ('self._env', 'self.env')
            if not ok:
                return False
            inits += 1
    return inits == 1

def add_asset(ctx, o):
    P = ctx.P
    S = P.cls('System')
    g = ctx.graph(S, 'add_asset')
    fn = P.method(S, 'add_asset')[1]
    o.require(len(fn.args.args) == 1, 'System.add_asset no longer takes exactly the new asset')
    a = fn.args.args[0].arg

    def m_noinst(test, frame):
        r = _none_cmp(test, lambda e: ct(e, frame) == 'System._instance')
        if r is not None:
            return r
        if ct(test, frame) == 'System._instance':
            return False
        return None

    def m_present(test, frame):
        if isinstance(test, ast.Compare) and len(test.ops) == 1 and ct(test.left, frame) == a and \
                ct(test.comparators[0], frame) == 'System._instance._assets':
            if isinstance(test.ops[0], ast.In):
                return True
            if isinstance(test.ops[0], ast.NotIn):
                return False
        return None

    def m_started(test, frame):
        t = ct(test, frame)
        if t == 'System._instance._simulation_is_initialized':
            return True
        if isinstance(test, ast.Compare) and len(test.ops) == 1 and ct(test.left, frame) == 'System._instance._simulation_is_initialized' and \
                isinstance(test.comparators[0], ast.Constant) and isinstance(test.comparators[0].value, bool) and isinstance(test.ops[0], (ast.Eq, ast.Is, ast.NotEq, ast.IsNot)):
            return (test.comparators[0].value is True) == isinstance(test.ops[0], (ast.Eq, ast.Is))
        return None

    def hook(an, n, before, after):
        st = after
        for cl in calls_at(g, n):
            nm = call_attr(cl)
            if nm in ('append', 'insert', 'extend') and 'System._instance._assets' == ct(cl.func.value, n.frame):
                good = nm == 'append' and len(cl.args) == 1 and ct(cl.args[0], n.frame) == a
                st = st.with_flag('appended-twice' if 'appended' in st.flags else ('appended' if good else 'appended-wrong'))
            if nm == 'initialize':
                good = ct(cl.func.value, n.frame) == a and len(cl.args) == 1 and not cl.keywords and ct(cl.args[0], n.frame) in ('System._instance._env', 'System._instance.env')
                fl = 'initialized' if good else 'initialized-wrong'
                if 'initialized' in st.flags:
                    fl = 'initialized-twice'
                if 'appended' not in st.flags:
                    fl = 'initialized-before-registered'
                st = st.with_flag(fl)
        return st
    an = Analysis(P, g, ['#noinst', '#present', '#started'])
    an.refine_hooks.append(_ghost_refiner([('#noinst', m_noinst), ('#present', m_present), ('#started', m_started)]))
    an.node_hooks.append(hook)
    for noinst, present, started in itertools.product('TF', 'TF', 'TF'):
        s0 = State({'#noinst': noinst, '#present': present, '#started': started})
        res = ctx.explore(an, [s0], follow_exc=True)
        exits, raises = res.exits(), res.raise_exits()
        o.count()
        o.witness((noinst, present, started))
        case = f'active system {"missing" if noinst == "T" else "present"}, asset {"already" if present == "T" else "not yet"} registered, simulation {"" if started == "T" else "not "}initialised'
        if noinst == 'T':
            if exits or not raises or any(st.flags for st in raises):
                o.fail(P, 'System.add_asset', 'if System._instance == None: raise RuntimeError(...)', f'{case}: add_asset must raise before doing anything',
                       file=S.mod.path, line=fn.lineno)
            continue
        if raises or not exits:
            o.fail(P, 'System.add_asset', 'System.add_asset', f'{case}: add_asset raises or does not return', file=S.mod.path, line=fn.lineno)
        for st in exits:
            want = set()
            if present == 'F':
                want.add('appended')
                if started == 'T':
                    want.add('initialized')
            if set(st.flags) != want:
                o.fail(P, 'System.add_asset', 'System._instance._assets.append(new_asset); if started: new_asset.initialize(System._instance._env)',
                       f'{case}: add_asset does {sorted(st.flags) or "nothing"}; expected {sorted(want) or "nothing"}', file=S.mod.path, line=fn.lineno,
                       path=res.path_lines(g.exit, st))
    o.sample({'cases': 'active-system x already-registered x simulation-initialised (8 combinations)', 'graph_nodes': len(g.nodes)})


def _in_assets_loop(g, n, recv):
    """node n lies in the body of a loop `for <recv> in self._assets` of the supergraph (also inside a helper called from that body)"""
    for h in g.nodes.values():
        if h.kind == 'for' and isinstance(h.ast.target, ast.Name) and h.ast.target.id == recv and ct(h.ast.iter, h.frame) == 'self._assets':
            region = g.reach([m for l, m in g.succ[h.id] if l == 'T'], avoid={h.id}, follow=lambda l: l != 'exc')
            if n.id in region:
                return True
    return False


def simulate(ctx, o):
    P = ctx.P
    S = P.cls('System')
    g = ctx.graph(S, 'simulate')
    fn = P.method(S, 'simulate')[1]

    def m_other(test, frame):
        if isinstance(test, ast.Compare) and len(test.ops) == 1:
            sides = {ct(test.left, frame), ct(test.comparators[0], frame)}
            if sides == {'System._instance', 'self'}:
                if isinstance(test.ops[0], (ast.NotEq, ast.IsNot)):
                    return True
                if isinstance(test.ops[0], (ast.Eq, ast.Is)):
                    return False
        return None

    def hook(an, n, before, after):
        st = after
        for cl in calls_at(g, n):
            nm = call_attr(cl)
            recv = ct(cl.func.value, n.frame) if isinstance(cl.func, ast.Attribute) else ''
            recv_raw = ast.unparse(cl.func.value) if isinstance(cl.func, ast.Attribute) else ''
            if nm == 'initialize':
                arg_ok = len(cl.args) == 1 and ct(cl.args[0], n.frame) in ('self._env', 'self.env')
                if recv in ('self.resource_manager', 'self._env.resource_manager', 'self.env.resource_manager', 'self._env._resource_manager'):
                    st = st.with_flag('rm-init' if arg_ok and 'rm-init' not in st.flags else 'rm-init-wrong')
                elif not _in_assets_loop(g, n, recv):
                    st = st.with_flag('stray-initialize')
                if 'ran' in st.flags:
                    st = st.with_flag('init-after-run')
            if nm == 'run' and recv in ('self._env', 'self.env'):
                st = st.with_flag('ran-twice' if 'ran' in st.flags else 'ran')
                dur = cl.args[0] if cl.args else next((k.value for k in cl.keywords if k.arg == 'simulation_duration'), None)
                if dur is None or ctext(dur, FrameEnv(n.frame)) != fn.args.args[1].arg:
                    st = st.with_flag('ran-other-duration')
                if st.fields.get('_simulation_is_initialized') != 'T':
                    st = st.with_flag('ran-uninitialised')
            if nm == '_reset' or nm == 'reset':
                st = st.with_flag('reset')
        a = n.ast
        if n.kind == 'for' and ct(a.iter, n.frame) == 'self._assets' and isinstance(a.target, ast.Name) and 'assets-init' not in st.flags:
            # the loop initialises every registered asset (assets registered by an initialize() are appended and reached by the same loop)
            body_ok = init_loop_body(g, n) and not a.orelse
            st = st.with_flag('assets-init' if body_ok else 'assets-init-wrong')
            if 'rm-init' not in st.flags:
                st = st.with_flag('assets-before-rm')
            if 'ran' in st.flags:
                st = st.with_flag('init-after-run')
        if n.kind == 'stmt' and isinstance(a, ast.Assign) and any(is_self_attr(t, '_simulation_is_initialized') for t in a.targets):
            if 'assets-init' not in st.flags or 'rm-init' not in st.flags:
                st = st.with_flag('flag-before-init')
        return st
    an = Analysis(P, g, ['_simulation_is_initialized', '#other'])
    an.refine_hooks.append(_ghost_refiner([('#other', m_other)]))
    an.node_hooks.append(hook)
    for other, started in itertools.product('TF', 'TF'):
        res = ctx.explore(an, [State({'_simulation_is_initialized': started, '#other': other})], follow_exc=True)
        exits, raises = res.exits(), res.raise_exits()
        o.count()
        o.witness((other, started))
        case = f'{"another system was created since" if other == "T" else "this is the active system"}, simulation {"" if started == "T" else "not yet "}initialised'
        if other == 'T':
            if exits or not raises or any(st.flags for st in raises):
                o.fail(P, 'System.simulate', 'if System._instance != self: raise RuntimeError(...)', f'{case}: simulate must raise before doing anything',
                       file=S.mod.path, line=fn.lineno)
            continue
        if not exits:
            o.fail(P, 'System.simulate', 'self._env.run(simulation_duration, trace=trace)', f'{case}: simulate does not return', file=S.mod.path, line=fn.lineno)
        for st in exits:
            want = {'ran'} | ({'rm-init', 'assets-init'} if started == 'F' else set())
            if set(st.flags) != want or st.fields.get('_simulation_is_initialized') != 'T':
                o.fail(P, 'System.simulate', 'if not self._simulation_is_initialized: ...initialize...; self._simulation_is_initialized = True',
                       f'{case}: simulate does {sorted(st.flags)} and leaves the initialised flag {st.fields.get("_simulation_is_initialized")}; '
                       f'expected {sorted(want)} and the flag set', file=S.mod.path, line=fn.lineno, path=res.path_lines(g.exit, st))
    o.sample({'cases': 'active x initialised (4 combinations)', 'graph_nodes': len(g.nodes)})
    # Environment.run does not reset the environment (continuing a simulation keeps clock, queue and data)
    E = P.cls('Environment')
    gr = ctx.graph(E, 'run')
    o.count()
    for n in gr.nodes.values():
        if n.kind == 'call_enter' and n.frame.func.name in ('_reset', 'reset', '__init__'):
            o.fail(P, 'Environment.run', n.src(), 'Environment.run re-initialises the environment: continuing a simulation would start over', node=n)
        for cl in calls_at(gr, n):
            if call_attr(cl) in ('initialize',):
                o.fail(P, 'Environment.run', n.src(), 'Environment.run initialises objects: continuing a simulation would re-initialise them', node=n)


def asset_initialize(ctx, o):
    P = ctx.P
    A = P.cls('Asset')
    g = ctx.graph(A, 'initialize')
    fn = P.method(A, 'initialize')[1]
    env = fn.args.args[1].arg
    an = Analysis(P, g, ['_env'])

    def hook(an_, n, before, after):
        a = n.ast
        if n.kind == 'stmt' and isinstance(a, ast.Assign) and any(is_self_attr(t, '_env') for t in a.targets):
            fl = 'env-set' if ast.unparse(a.value) == env else 'env-set-wrong'
            return after.with_field('_env', 'S' if ast.unparse(a.value) == env else after.fields.get('_env', TOP)).with_flag(fl)
        return after
    an.node_hooks.append(hook)
    for cur in 'NS':
        s0 = State({'_env': cur})
        s0.locals[(g.top.id, env)] = 'S'
        res = ctx.explore(an, [s0], follow_exc=True)
        o.count()
        o.witness(cur)
        if cur == 'S':
            if res.exits() or any('env-set' in st.flags for st in res.raise_exits()) or not res.raise_exits():
                o.fail(P, 'Asset.initialize', 'assert self._env == None', 'an asset that already has an environment can be initialised again (initialisation must happen exactly once)',
                       file=A.mod.path, line=fn.lineno)
        else:
            if not res.exits() or any('env-set' not in st.flags or 'env-set-wrong' in st.flags for st in res.exits()):
                o.fail(P, 'Asset.initialize', f'self._env = {env}', 'initialize does not store the environment it was given', file=A.mod.path, line=fn.lineno)
    # who writes Asset._env
    for s in inv.attr_stores(P, '_env'):
        if s.cls is not None and A in s.cls.mro:
            o.count()
            if not (s.cls is A and s.func.name in ('__init__', 'initialize')):
                o.fail(P, s.ctx, s.stmt, 'the environment of an asset is written outside Asset.__init__/initialize', file=s.mod.path, line=s.line)
    # every initialize override in the hierarchy reaches Asset.initialize exactly once on every normal path
    for c in sorted(P.subclasses(A), key=lambda c: c.name):
        gi = ctx.graph(c, 'initialize')
        base = [n.id for n in gi.nodes.values() if n.kind == 'call_enter' and n.frame.defcls is A and n.frame.func.name == 'initialize']
        o.count()
        if c is A or (gi.top.defcls is A and gi.top.func.name == 'initialize'):
            continue
        o.witness(('chain', c.name))
        if not base or gi.exit in gi.reach([gi.entry], avoid=frozenset(base), follow=lambda l: l != 'exc'):
            o.fail(P, f'{c.name}.initialize', 'super().initialize(env)', f'{c.name}.initialize has a path that does not run Asset.initialize (the once-only guard and the environment are skipped)',
                   file=c.mod.path, line=c.node.lineno)
        elif len(base) > 1 and any(b2 in gi.reach([b], follow=lambda l: l != 'exc') for b in base for b2 in base if b2 != b):
            o.fail(P, f'{c.name}.initialize', 'super().initialize(env)', f'{c.name}.initialize runs Asset.initialize twice', file=c.mod.path, line=c.node.lineno)


def _desugar_comprehension(fn):
    """`return [elt for v in it if cond]` (directly or through one local) is rewritten as the equivalent loop
    `rtn = []; for v in it: if cond: rtn.append(elt); return rtn` so that both spellings are analysed by the same path rule"""
    import copy
    body = [s_ for s_ in fn.body if not (isinstance(s_, ast.Expr) and isinstance(s_.value, ast.Constant))]
    comp, rest, name = None, None, None
    if body and isinstance(body[-1], ast.Return) and isinstance(body[-1].value, ast.ListComp):
        comp, rest, name = body[-1].value, body[:-1], '_rtn'
    elif len(body) >= 2 and isinstance(body[-1], ast.Return) and isinstance(body[-1].value, ast.Name) and isinstance(body[-2], ast.Assign) \
            and isinstance(body[-2].value, ast.ListComp) and [ast.unparse(t) for t in body[-2].targets] == [body[-1].value.id]:
        comp, rest, name = body[-2].value, body[:-2], body[-1].value.id
    if comp is None or len(comp.generators) != 1 or comp.generators[0].is_async:
        return fn
    gen = comp.generators[0]
    tv = ast.unparse(gen.target)
    cond = ' and '.join(f'({ast.unparse(c)})' for c in gen.ifs) or 'True'
    src = f'def _f():\n    {name} = []\n    for {tv} in {ast.unparse(gen.iter)}:\n        if {cond}:\n            {name}.append({ast.unparse(comp.elt)})\n    return {name}\n'
    new_body = ast.parse(src).body[0].body
    for n_ in new_body:
        for x in ast.walk(n_):
            if hasattr(x, 'lineno'):
                x.lineno = comp.lineno
                x.end_lineno = comp.lineno
    out = copy.copy(fn)
    out.body = list(rest) + new_body
    return out


def find_assets(ctx, o):
    P = ctx.P
    S = P.cls('System')
    fn = P.method(S, 'find_assets')[1]
    fn = _desugar_comprehension(fn)
    g = ctx.B.build_func(S, S, fn)
    ctx.units['graphs'] += 1
    is_static = any(ast.unparse(d) in ('staticmethod', 'classmethod') for d in fn.decorator_list)
    params = [a.arg for a in fn.args.args][(0 if ast.unparse(fn.decorator_list[0]) == 'staticmethod' else 1) if is_static else 1:]
    if is_static:
        o.count()
        o.fail(P, 'System.find_assets', fn.decorator_list[0], 'find_assets is not bound to the system it is called on: it cannot return the assets registered with that system '
               '(an earlier system, e.g. one returned by simulate_multiple_times, is answered from another registry)', file=S.mod.path, line=fn.lineno)
        return
    if len(params) != 4:
        raise AnalysisError(f'System.find_assets has parameters {params}; the property names four filters')
    loops = [l for l in ast.walk(fn) if isinstance(l, ast.For)]
    o.count()
    if len(loops) != 1 or ast.unparse(loops[0].iter) != 'self._assets' or not isinstance(loops[0].target, ast.Name):
        o.fail(P, 'System.find_assets', 'for a in self._assets', 'find_assets does not scan the registered assets once, in registration order', file=S.mod.path, line=fn.lineno)
        return
    v = loops[0].target.id
    kinds = {}     # param -> kind of match

    def match_atom(test, frame=None):
        """(param, 'none'|'match', polarity) for a recognised literal; inside an inlined helper the names are first mapped back to the
        expressions of find_assets itself"""
        if frame is not None and frame is not g.top:
            from ..norm import subst
            test = subst(test, FrameEnv(frame), keep=(v,))
        if isinstance(test, ast.Compare) and len(test.ops) == 1:
            l, r, op = test.left, test.comparators[0], test.ops[0]
            for x, y in ((l, r), (r, l)):
                if isinstance(x, ast.Name) and x.id in params:
                    if isinstance(y, ast.Constant) and y.value is None:
                        if isinstance(op, (ast.Eq, ast.Is)):
                            return x.id, 'none', True
                        if isinstance(op, (ast.NotEq, ast.IsNot)):
                            return x.id, 'none', False
                    yt = ast.unparse(y)
                    if yt in (f'{v}.name', f'{v}.id', f'{v}._name', f'{v}._id', f'type({v})'):
                        if isinstance(op, (ast.Eq, ast.Is)):
                            kinds.setdefault(x.id, set()).add(yt)
                            return x.id, 'match', True
                        if isinstance(op, (ast.NotEq, ast.IsNot)):
                            kinds.setdefault(x.id, set()).add(yt)
                            return x.id, 'match', False
        if isinstance(test, ast.Call) and call_attr(test) == 'isinstance' and len(test.args) == 2 and ast.unparse(test.args[0]) == v and \
                isinstance(test.args[1], ast.Name) and test.args[1].id in params:
            kinds.setdefault(test.args[1].id, set()).add('isinstance')
            return test.args[1].id, 'match', True
        return None

    unknown = []

    def refine(an, test, truth, st, frame):
        r = match_atom(test, frame)
        if r is None:
            unknown.append(ast.unparse(test))
            return st
        p, what, pol = r
        ghost = f'#{what}:{p}'
        want = 'T' if (truth == pol) else 'F'
        cur = st.fields.get(ghost, TOP)
        if cur in ('T', 'F') and cur != want:
            return None
        return st.with_field(ghost, want) if cur != want else st

    def hook(an, n, before, after):
        st = after
        for cl in calls_at(g, n):
            if call_attr(cl) in ('append', 'insert', 'add', 'extend'):
                good = call_attr(cl) == 'append' and len(cl.args) == 1 and ast.unparse(cl.args[0]) == v
                st = st.with_flag('kept' if good else 'kept-wrong')
        if n.kind == 'for' and 'visited' in st.flags:
            return []        # one iteration is enough: stop at the second arrival at the loop head
        if n.kind == 'for':
            st = st.with_flag('visited')
        return st
    ghosts = [f'#none:{p}' for p in params] + [f'#match:{p}' for p in params]
    an = Analysis(P, g, ghosts)
    an.refine_hooks.append(refine)
    an.node_hooks.append(hook)
    head = [n.id for n in g.nodes.values() if n.kind == 'for']
    bad = 0
    for vals in itertools.product('TF', repeat=8):
        env = dict(zip(ghosts, vals))
        # a filter that is absent cannot also match or mismatch in a way that matters: keep all 256 and compare
        res = ctx.explore(an, [State(env)])
        o.count()
        want = all(env[f'#none:{p}'] == 'T' or env[f'#match:{p}'] == 'T' for p in params)
        outcomes = set()
        for st in res.at(head[0]):
            if 'visited' in st.flags:
                outcomes.add('kept' in st.flags)
                if 'kept-wrong' in st.flags:
                    outcomes.add('wrong')
        if unknown:
            raise AnalysisError(f'System.find_assets: cannot interpret the filter literal `{unknown[0]}`')
        if outcomes != {want}:
            bad += 1
            if bad <= 3:
                desc = ', '.join(f'{p}: {"absent" if env[f"#none:{p}"] == "T" else ("match" if env[f"#match:{p}"] == "T" else "mismatch")}' for p in params)
                o.fail(P, 'System.find_assets', ast.unparse(loops[0]).split('\n')[1].strip() if '\n' in ast.unparse(loops[0]) else 'filter',
                       f'for an asset with ({desc}) find_assets {"keeps" if True in outcomes else "drops"} it; the asset must be returned exactly when every given filter matches',
                       file=S.mod.path, line=loops[0].lineno)
        else:
            o.witness(vals)
    # kinds of match: name ~ .name, id ~ .id, type_ exact, subtype isinstance
    want_kinds = {params[0]: {f'{v}.name', f'{v}._name'}, params[1]: {f'{v}.id', f'{v}._id'}, params[2]: {f'type({v})'}, params[3]: {'isinstance'}}
    for p in params:
        o.count()
        got = kinds.get(p, set())
        if not got or not got <= want_kinds[p]:
            o.fail(P, 'System.find_assets', f'{p} filter', f'the {p} filter compares against {sorted(got) or "nothing"}; expected {sorted(want_kinds[p])}', file=S.mod.path, line=fn.lineno)
    # the list returned is the list built
    rets = [r for r in ast.walk(fn) if isinstance(r, ast.Return)]
    o.count()
    appended = {ast.unparse(cl.func.value) for cl in ast.walk(fn) if isinstance(cl, ast.Call) and call_attr(cl) == 'append'}
    if len(rets) != 1 or rets[0].value is None or ast.unparse(rets[0].value) not in appended:
        o.fail(P, 'System.find_assets', 'return rtn', 'find_assets does not return the list it built (in scan order)', file=S.mod.path, line=fn.lineno)
    o.sample({'filters': params, 'loop_variable': v, 'assignments_checked': 256, 'match_kinds': {k: sorted(s) for k, s in kinds.items()}})


def system_identity(ctx, o):
    P = ctx.P
    S = P.cls('System')
    init = P.method(S, '__init__')[1]
    g = ctx.graph(S, '__init__')
    o.count()
    inst = [n for n in g.nodes.values() if n.kind == 'stmt' and isinstance(n.ast, ast.Assign) and
            any(ast.unparse(t) in ('System._instance', 'type(self)._instance', 'self.__class__._instance') for t in n.ast.targets)]
    ok = inst and all(ast.unparse(n.ast.value) == 'self' for n in inst) and g.exit not in g.reach([g.entry], avoid=frozenset(n.id for n in inst), follow=lambda l: l != 'exc')
    if not ok:
        o.fail(P, 'System.__init__', 'System._instance = self', 'a new System does not install itself as the active system on every path', file=S.mod.path, line=init.lineno)
    else:
        o.witness('install')
    need = {'_assets': '[]', '_simulation_is_initialized': 'False'}
    for f, want in need.items():
        o.count()
        ws = [n for n in g.nodes.values() if n.kind == 'stmt' and isinstance(n.ast, ast.Assign) and any(is_self_attr(t, f) for t in n.ast.targets)]
        if not ws or any(ast.unparse(n.ast.value) != want for n in ws):
            o.fail(P, 'System.__init__', f'self.{f} = {want}', f'a new System does not start with {f} = {want}', file=S.mod.path, line=init.lineno)
    for attr, allowed in (('_instance', {'System.__init__'}), ('_simulation_is_initialized', {'System.__init__', 'System.simulate'}), ('_assets', {'System.__init__'})):
        for s in inv.attr_stores(P, attr):
            o.count()
            if attr == '_instance' and s.func is None:
                continue       # class attribute `_instance = None`
            names = inv.covered(P, {a_.split('.')[1] for a_ in allowed})
            if not (s.cls is S and s.func is not None and s.func.name in names):
                o.fail(P, s.ctx, s.stmt, f'{attr} is written outside {sorted(allowed)}', file=s.mod.path, line=s.line)
    reg_owners = inv.covered(P, {'add_asset'})       # add_asset and private helpers only it calls (`active_system._register(asset)`)
    for s in inv.attr_uses(P, '_assets'):
        role = s.extra['role']
        o.count()
        if role[0] == 'method' and role[1] in ('append', 'insert', 'extend', 'remove', 'pop', 'clear', 'sort', 'reverse') \
                and not (s.cls is S and s.func is not None and s.func.name in reg_owners):
            o.fail(P, s.ctx, s.stmt, 'the list of registered assets is changed outside System.add_asset', file=s.mod.path, line=s.line)
        if role[0] in ('subscript-store', 'subscript-del', 'del'):
            o.fail(P, s.ctx, s.stmt, 'the list of registered assets is changed outside System.add_asset', file=s.mod.path, line=s.line)
    # class attribute default: no active system before the first System()
    o.count()
    ca = S.class_attrs.get('_instance')
    if ca is None or ast.unparse(ca if not isinstance(ca, ast.Assign) else ca.value) != 'None':
        o.fail(P, 'System', '_instance = None', 'System._instance does not start as None', file=S.mod.path, line=S.node.lineno)
    # _simulation_helper: a fresh System per index, passed to the user function with the index, returned
    h = P.method(S, '_simulation_helper')[1]
    hp = [a.arg for a in h.args.args]
    o.count()
    news = [s for s in h.body if isinstance(s, ast.Assign) and isinstance(s.value, ast.Call) and ast.unparse(s.value.func) == 'System' and not s.value.args]
    good = False
    if len(news) == 1 and isinstance(news[0].targets[0], ast.Name) and len(hp) >= 2:
        sysv = news[0].targets[0].id
        calls = [c_ for c_ in ast.walk(h) if isinstance(c_, ast.Call) and ast.unparse(c_.func) == hp[0]]
        rets = [r for r in ast.walk(h) if isinstance(r, ast.Return)]
        good = len(calls) == 1 and [ast.unparse(x) for x in calls[0].args[:2]] == [sysv, hp[1]] and len(rets) == 1 and rets[0].value is not None and \
            ast.unparse(rets[0].value) == sysv and not any(isinstance(x, (ast.For, ast.While, ast.If)) for x in ast.walk(h))
    if not good:
        o.fail(P, 'System._simulation_helper', 'new_system = System(); simulation(new_system, index, ...); return new_system',
               'a run does not get a fresh System that is passed to the user function with the index and returned', file=S.mod.path, line=h.lineno)
    else:
        o.witness('helper')


def check(ctx):
    P = ctx.P
    for nm in ('System', 'Asset', 'Environment'):
        if not P.has_cls(nm):
            raise AnalysisError(f'class {nm} not found')
    oa = Ob('C20.1a', 'K11', 'every field the initialize() chain of a non-transitory asset class may read is definitely set on every constructor path before the asset registers with the System')
    ob = Ob('C20.1b', 'K11', 'no field written by the initialize() chain is written again by the constructor after registration (identical constants excepted)')
    o2 = Ob('C20.2', 'K2', 'Asset.__init__ registers iff not transitory; every constructor path of a non-transitory class registers; Part and Batch are transitory')
    ordering(ctx, oa, ob, o2)
    from .. import devices as dv
    dv.check_defaults(ctx, o2, [('Asset', '__init__', 'is_transitory')])
    # registration (and with it immediate initialisation) happens at one point of the constructor chain only: Asset.__init__
    for s_ in inv.method_calls(P, 'add_asset'):
        o2.count()
        if not (s_.cls is not None and s_.cls.name == 'Asset' and s_.func is not None and s_.func.name in inv.covered(P, {'__init__'})):
            o2.fail(P, s_.ctx, s_.node, 'System.add_asset is called outside Asset.__init__: an asset that registers itself at another point of its constructor is initialised '
                    'against a different construction state than the same asset created before the simulation started', file=s_.mod.path, line=s_.line)
        else:
            o2.witness(('register', s_.ctx))
    o3 = Ob('C20.3', 'K2', 'add_asset: raise without an active system; append only if absent; initialise immediately, with the active environment, iff the simulation is initialised')
    add_asset(ctx, o3)
    o4 = Ob('C20.4', 'K2+K3', 'simulate: raise first unless active; initialise resource manager and all assets exactly when not yet initialised, then set the flag; always reach env.run; run never resets')
    simulate(ctx, o4)
    o5 = Ob('C20.5', 'K2', 'Asset.initialize refuses a second initialisation before storing the environment; every initialize override runs it exactly once; only it writes _env')
    asset_initialize(ctx, o5)
    o6 = Ob('C20.6', 'K6', 'find_assets keeps an asset iff each of the four filters is absent or matches (exact type for type_, isinstance for subtype), in registration order')
    find_assets(ctx, o6)
    o7 = Ob('C20.7', 'K2+K1', 'System() installs itself as the active system with an empty registry and the initialised flag false; only add_asset changes the registry; _simulation_helper builds a fresh System per index')
    system_identity(ctx, o7)
    o8 = ctx.shared('c03', 'C03.8', 'C20.8', 'an asset created or connected later behaves like one created before the start only if its upstream is told about the new '
                    'connection whenever the model is initialised -- between two simulate() calls as well as inside an event')
    o9 = ctx.shared('c18', 'C18.2', 'C20.9', 'a scheduler created while the simulation runs behaves like one created before the start only if its transitions are scheduled '
                    'relative to the current time (now + duration), not on a time axis of its own that starts at 0')
    return [oa, ob, o2, o3, o4, o5, o6, o7, o8, o9]


CLAIM = {
    'technique': 'static analysis: must-definition dataflow over inlined constructor and initialize() supergraphs of every Asset subclass (read-before-set, '
                 'write-after-registration), typestate exploration of add_asset / simulate / Asset.initialize over ghost case splits, exhaustive truth-table '
                 'evaluation of the find_assets filter paths, who-may-write inventories',
    'level_text': 'Necessary structural conditions of registration, once-only initialisation and late creation are decided for all classes of the Asset hierarchy '
                  'and all paths of the System lifecycle methods; behavioural equivalence of a late-created asset with an early twin is not claimed.',
    'level_note': 'Constructors of user subclasses are outside the package and not analysed; opaque calls are assumed not to write fields of self.',
}
