"""C03 -- no lost wake-up: a part that can move does move (flow liveness)."""
import ast
import itertools

from .. import AnalysisError
from ..report import Ob
from ..cfg import calls_at, call_attr, is_self_attr, recv_text, own_exprs, walk_now
from ..state import Analysis, State, TOP, schedules, sched_calls, sched_action_name, sched_event_type, bind_call, SCHED_PARAMS
from ..norm import Normalizer, cmp_norm, cmp_polarity, FrameEnv, single_defs
from .. import inventory as inv
from .. import devices as dv
from .c02 import foreign_deleg_call, construct_and_initialize

EXPLANATION = '''
Static analysis of the wake-up protocol (space_available_downstream / notify_upstream_of_available_space / the
waiting-for-downstream flag / PASS_PART attempts / the resource manager's pending-request check) by path-sensitive
typestate exploration of every computed entry point of every device class, with ghost variables for the device's own
scheduled events (live / paused / none).
Decided: (C03.1) no entry point can take a device from "cannot accept" to "can accept" without reaching the loop that
notifies its upstream devices; (C03.2/C03.3) the retry invariant J -- a part ready to leave an operational device implies
the waiting flag is armed or a hand-over attempt is pending -- holds after construction+initialisation and is preserved by
every entry point (Buffer with its list abstracted to 0/1/many; pop(0) never on an empty list); (C03.4) a notification
schedules an attempt exactly when operational and armed, pass-through devices forward it; (C03.5) a source whose budget
was exhausted schedules an attempt when the budget is raised; (C03.6) every pool mutation is followed by a check of the
waiting requests scheduled for the current instant; (C03.7) the check visits every waiting request; (C03.8) a new
downstream connection announces itself; (C03.9) the protocol methods reachable re-entrantly write no slot; (C03.10) a
resource refusal registers exactly one callback which clears the flag and notifies upstream; (C03.11) a restored
machine re-offers a finished part and announces free space independently of the waiting flag (a notification that
arrives while the machine is down is ignored by design, so an armed flag proves nothing at restore time).
NOT decided: termination of a finite-horizon run; quiescence of a whole line at each clock advance; DecisionGate
predicates that depend on more than the part (documented caveat).
'''
ASSUMPTIONS = ['run-to-completion of entry points', 'every device event carries the device id (C06.5) so pause/cancel reach it',
               'DecisionGate predicates depend only on the part (documented by the library)']
MIN_INSTANCES = 1500

T4 = ['_part', '_output', '_is_shut_down', '_block_input', '_waiting_for_downstream_space']


def room_refine(P, c):
    """Buffer: `level < capacity` refines the ghost #room"""
    N = Normalizer(P, c)

    def h(an, test, truth, st, frame):
        pol = cmp_polarity(N, test, FrameEnv(frame), {'self._level': 1, 'self._capacity': -1}, '<')     # `level < capacity` or its negation `level >= capacity`
        if pol:
            cur = st.fields.get('#room', TOP)
            want = 'T' if truth == (pol == 1) else 'F'
            if cur in ('T', 'F') and cur != want:
                return None
            return st.with_field('#room', want) if cur != want else st
        return NotImplemented
    return h


def level_hook(an, n, before, after):
    a = n.ast
    if n.kind == 'stmt' and isinstance(a, (ast.AugAssign, ast.Assign)):
        tg = [a.target] if isinstance(a, ast.AugAssign) else a.targets
        if any(is_self_attr(t, '_level') for t in tg) and '#room' in after.fields:
            return after.with_field('#room', TOP)
    return after


def check(ctx):
    P = ctx.P
    obs = []

    # ---- C03.1 wake after free -----------------------------------------------------------
    o = Ob('C03.1', 'K5', 'for every entry point and entry state: not accepting at entry and accepting at exit => the upstream '
                          'notification loop was reached')
    obs.append(o)
    for c in dv.device_classes(P):
        slot = c.name in dv.SLOT_DEVICES
        dom = dv.base_domain(P, c)
        tracked = list(T4)
        refine = []
        hooks = [dv.notify_hook]
        if not slot:
            dom['_part'] = ['N']
            dom['_output'] = ['N']
        dom['_waiting_for_downstream_space'] = ['T', 'F'] if slot else ['F']
        if c.name == 'Buffer':
            dom['#room'] = ['T', 'F']
            tracked.append('#room')
            refine.append(room_refine(P, c))
            hooks.append(level_hook)

        def acc(f, c=c):
            return dv.accepting(c.name, f) and f.get('#room', 'T') != 'F'
        for e, kind, g, s0, res in dv.explore_all(ctx, c, tracked, dom, lambda f, c=c: dv.slot_invariant(c.name, f),
                                                  node_hooks=hooks, refine_hooks=refine,
                                                  call_models={'generate_part': 'S', 'reserve_resources': TOP}):
            for st in res.exits():
                o.count()
                f1 = dict(st.fields)
                if f1.get('#room') == TOP:
                    f1['#room'] = 'T'       # level changed: room may have appeared
                if not acc(s0.fields) and acc(f1):
                    o.witness((c.name, e))
                    if 'notified' not in st.flags:
                        ln = dv.last_node(res, g.exit, st, lambda n: n.kind == 'stmt' and isinstance(n.ast, (ast.Assign, ast.AugAssign)))
                        o.fail(P, f'{c.name}.{e}', ln.ast if ln else e,
                               f'the device becomes able to accept a part without notifying its upstream devices (entry {s0.show()} -> exit {st.show()})',
                               node=ln, file=c.mod.path, path=res.path_lines(g.exit, st))
    o.sample({'witnessed_free_transitions': sorted(f'{a}.{b}' for a, b in o.nontrivial)[:12]})
    need = {('PartHandler', '_pass_part_downstream'), ('PartProcessor', 'restore_functionality'), ('Sink', '_finish_cycle'),
            ('PartHandler', 'prop:block_input'), ('Buffer', '_pass_part_downstream')}
    missing = {k for k in need if P.has_cls(k[0]) and k not in o.nontrivial}
    o.require(not missing, f'the antecedent (not accepting -> accepting) is never witnessed at {sorted(missing)}; the rule would pass vacuously')

    # ---- C03.2 retry protocol ------------------------------------------------------------------
    o = Ob('C03.2', 'K5', 'retry invariant J, inductive over all entry points: (part ready to leave and device operational) => '
                          '(waiting flag armed or a PASS_PART attempt pending); holds after construction + initialisation')
    obs.append(o)
    tracked = T4 + ['#pending']

    def J(f):
        if not dv.full(f['_output']):
            return True
        if f.get('_is_shut_down', 'F') != 'F':
            return True
        return f['_waiting_for_downstream_space'] == 'T' or f['#pending'] == 'T'
    actions = dv.action_event_types(P)
    for c in dv.device_classes(P, ['PartHandler', 'PartProcessor', 'PartBatcher', 'Source']):
        dom = dv.base_domain(P, c)
        dom['_waiting_for_downstream_space'] = ['T', 'F']
        dom['#pending'] = ['T', 'F', 'P'] if dv.is_processor(P, c) else ['T', 'F']
        dom['_block_input'] = ['F']

        def inv_(f, c=c):
            if not dv.slot_invariant(c.name, f):
                return False
            if f['#pending'] == 'P' and f['_is_shut_down'] == 'F':
                return False          # events are paused only while the machine is shut down
            return True

        def entry_filter(e, kind, s0, c=c):
            f = s0.fields
            is_attempt = 'PASS_PART' in actions.get(e, ())
            if is_attempt:
                # fired by a live PASS_PART event, which is thereby consumed: J was satisfied through it
                # (worst case: it was the only one) or independently of it
                if f['#pending'] == 'P':
                    return None
                return s0
            if e == '_finish_cycle' and c.name != 'Source' and not (dv.full(f['_part']) and f['_is_shut_down'] == 'F' and not dv.full(f['_output'])):
                return None
            return s0 if J(f) else None
        budget = budget_hooks(P, c) if c.name == 'Source' else None
        tr = tracked + (['#exhausted'] if budget else [])
        if budget:
            dom['#exhausted'] = ['T', 'F']
        for e, kind, g, s0, res in dv.explore_all(ctx, c, tr, dom, inv_, node_hooks=[dv.ghost_hook({'#pending'})] + ([budget[0]] if budget else []),
                                                  refine_hooks=[budget[1]] if budget else [],
                                                  call_models={'generate_part': 'S', 'reserve_resources': TOP, 'Batch': 'S'},
                                                  entry_filter=entry_filter):
            for st in res.exits():
                o.count()
                if dv.full(st.fields['_output']):
                    o.witness((c.name, e))
                if J(st.fields):
                    continue
                if c.name == 'Source' and st.fields.get('#exhausted') == 'T':
                    continue      # budget exhausted: the source is genuinely blocked; resumption is C03.5
                ln = dv.last_node(res, g.exit, st, lambda n: n.kind in ('stmt', 'cond', 'return') and n.ast is not None)
                o.fail(P, f'{c.name}.{e}', ln.ast if ln else e,
                       f'a finished part is left without an armed retry: neither the waiting flag nor a pending attempt (entry {s0.show()} -> exit {st.show()})',
                       node=ln, file=c.mod.path, path=res.path_lines(g.exit, st))
        for st in construct_and_initialize(ctx, c, tr, extra_hooks=[dv.ghost_hook({'#pending'})]):
            o.count()
            f = dict(st.fields)
            for k in ('_is_shut_down', '_block_input', '_waiting_for_downstream_space'):
                if f.get(k) == TOP:
                    f[k] = 'F'
            if not J(f):
                o.fail(P, f'{c.name}.initialize', 'initialize', f'after construction and initialisation a ready part has no armed retry: {st.show()}',
                       file=c.mod.path, line=c.node.lineno)
    o.sample({'invariant': 'output full and operational => waiting flag or live PASS_PART pending',
              'entry_points_leaving_a_ready_part': sorted(f'{a}.{b}' for a, b in o.nontrivial)[:12]})

    # ---- C03.3 buffer retry ----------------------------------------------------------------------
    o = Ob('C03.3', 'K5', 'Buffer (list abstracted to 0/1/many): non-empty => (waiting flag armed or attempt pending), inductive; '
                          'pop(0) is never reached with an empty list')
    obs.append(o)
    if P.has_cls('Buffer'):
        buffer_retry(ctx, o)

    # ---- C03.4 notification handling ----------------------------------------------------------------
    o = Ob('C03.4', 'K2', 'space_available_downstream: slot devices schedule an attempt exactly when operational and armed; '
                          'pass-through devices forward the notification')
    obs.append(o)
    for c in dv.device_classes(P, dv.SLOT_DEVICES):
        g = ctx.graph(c, 'space_available_downstream')
        an = Analysis(P, g, T4 + ['#pending'])
        an.node_hooks.append(dv.ghost_hook({'#pending'}))
        for sd, w in itertools.product(['T', 'F'] if dv.is_processor(P, c) else ['F'], 'TF'):
            s0 = State({'_part': TOP, '_output': TOP, '_is_shut_down': sd, '_block_input': TOP,
                        '_waiting_for_downstream_space': w, '#pending': 'F'})
            res = ctx.explore(an, [s0])
            for st in res.exits():
                o.count()
                want = sd == 'F' and w == 'T'
                got = st.fields['#pending'] == 'T'
                if c.name == 'Sink':
                    continue      # a sink passes nothing on
                o.witness((c.name, sd, w))
                if want != got:
                    o.fail(P, f'{c.name}.space_available_downstream', 'self._schedule_pass_part_downstream()',
                           f'with operational={sd == "F"} and waiting flag={w} an attempt is {"not " if want else ""}scheduled',
                           file=c.mod.path, line=dv.entry_fn(P, c, 'space_available_downstream').lineno, path=res.path_lines(g.exit, st))
    for c in dv.device_classes(P, dv.PASS_THROUGH):
        g = ctx.graph(c, 'space_available_downstream')
        an = Analysis(P, g, ['_is_shut_down'])

        def fwd(an_, n, before, after):
            st = dv.notify_hook(an_, n, before, after)
            for cl in calls_at(an_.g, n):
                if call_attr(cl) in ('space_available_downstream', 'notify_upstream_of_available_space') and not is_self_attr(cl.func):
                    st = st.with_flag('notified')
            return st
        an.node_hooks.append(fwd)
        res = ctx.explore(an, [State({'_is_shut_down': 'F'})])
        for st in res.exits():
            o.count()
            o.witness(c.name)
            if 'notified' not in st.flags:
                o.fail(P, f'{c.name}.space_available_downstream', 'notify_upstream_of_available_space()',
                       'a pass-through device swallows the notification of available space', file=c.mod.path,
                       line=dv.entry_fn(P, c, 'space_available_downstream').lineno, path=res.path_lines(g.exit, st))
    # notify_upstream_of_available_space reaches every upstream
    for c in dv.device_classes(P):
        g = ctx.graph(c, 'notify_upstream_of_available_space')
        hooks = [dv.notify_hook]
        tracked = []
        refine = []
        if c.name == 'Buffer':
            tracked = ['#room']
            refine = [room_refine(P, c)]
        an = Analysis(P, g, tracked)
        an.node_hooks.extend(hooks)
        an.refine_hooks.extend(refine)
        res = ctx.explore(an, [State({'#room': 'T'} if tracked else {})])
        for st in res.exits():
            o.count()
            if 'notified' not in st.flags:
                o.fail(P, f'{c.name}.notify_upstream_of_available_space', 'for up in self._upstream: up.space_available_downstream()',
                       'the notification does not reach the upstream devices', file=c.mod.path,
                       line=dv.entry_fn(P, c, 'notify_upstream_of_available_space').lineno, path=res.path_lines(g.exit, st))
            else:
                o.witness((c.name, 'notify'))
    # the notification loops iterate the whole upstream list and call the right method
    for cname, meth, coll, callee in (('PartFlowController', 'notify_upstream_of_available_space', 'self._upstream', 'space_available_downstream'),
                                      ('GroupInput', 'notify_upstream_of_available_space', 'self._group._group_paths', 'notify_upstream_of_available_space')):
        if not P.has_cls(cname):
            continue
        c = P.cls(cname)
        fn = P.method(c, meth)[1]
        loops = [n for n in ast.walk(fn) if isinstance(n, ast.For)]
        o.count()
        ok = False
        for lp in loops:
            body = [s for s in lp.body]
            if ast.unparse(lp.iter) == coll and isinstance(lp.target, ast.Name) and len(body) == 1 and isinstance(body[0], ast.Expr) \
                    and ast.unparse(body[0].value) == f'{lp.target.id}.{callee}()' and not any(isinstance(x, (ast.Break, ast.Return)) for x in ast.walk(lp)):
                ok = True
        if not ok:
            o.fail(P, f'{cname}.{meth}', f'for up in {coll}: up.{callee}()', 'the notification loop does not call every upstream device',
                   file=c.mod.path, line=fn.lineno)
        else:
            o.witness((cname, 'loop'))

    # ---- C03.5 source resumes when its budget is raised ------------------------------------------
    o = Ob('C03.5', 'K2+K6', 'Source.adjust_part_count: if the budget was exhausted before the adjustment, a hand-over attempt is scheduled')
    obs.append(o)
    if P.has_cls('Source'):
        c = P.cls('Source')
        g = ctx.graph(c, 'adjust_part_count')
        nh, rh = budget_hooks(P, c)
        an = Analysis(P, g, T4 + ['#pending', '#exhausted'])
        an.node_hooks.extend([dv.ghost_hook({'#pending'}), nh])
        an.refine_hooks.append(rh)
        for ex in 'TF':
            s0 = State({'_part': 'N', '_output': TOP, '_is_shut_down': 'F', '_block_input': 'F', '_waiting_for_downstream_space': TOP,
                        '#pending': 'F', '#exhausted': ex})
            res = ctx.explore(an, [s0])
            for st in res.exits():
                o.count()
                if ex == 'T':
                    o.witness('exhausted')
                    if st.fields['#pending'] != 'T':
                        o.fail(P, 'Source.adjust_part_count', 'self._schedule_pass_part_downstream()',
                               'the budget was exhausted before the adjustment but no new hand-over attempt is scheduled',
                               file=c.mod.path, line=dv.entry_fn(P, c, 'adjust_part_count').lineno, path=res.path_lines(g.exit, st))
        o.sample({'entry': 'Source.adjust_part_count', 'ghost': '#exhausted = (budget - produced < 1) evaluated before the budget is written'})

    # ---- C03.6 / C03.7 resource manager ----------------------------------------------------------
    o6 = Ob('C03.6', 'K3', 'ResourceManager: every path that changes a pool or the waiting list schedules _check_pending_requests at the current instant')
    obs.append(o6)
    o7 = Ob('C03.7', 'K14', '_check_pending_requests visits every waiting request: scan from 0; served => removed, index kept; else index + 1')
    obs.append(o7)
    resource_wakeups(ctx, o6, o7)

    # ---- C03.8 new connection ------------------------------------------------------------------------
    o = Ob('C03.8', 'K2', '_add_downstream: when a downstream device is added to an initialised device, space_available_downstream runs')
    obs.append(o)
    for c in dv.device_classes(P):
        if not P.has_method(c, '_add_downstream'):
            continue
        g = ctx.graph(c, '_add_downstream')
        an = Analysis(P, g, ['_env'])

        def hook(an_, n, before, after):
            st = after
            if n.kind == 'call_enter' and n.frame.func.name == 'space_available_downstream' and n.frame.parent is g.top:
                st = st.with_flag('announced')
            for cl in calls_at(an_.g, n):
                if call_attr(cl) in ('append', 'add', 'insert') and '_downstream' in recv_text(cl):
                    st = st.with_flag('added')
            return st
        an.node_hooks.append(hook)
        res = ctx.explore(an, [State({'_env': 'S'})])
        if not res.exits():
            o.count()
            continue        # Sink / GroupOutput refuse downstream devices by raising
        for st in res.exits():
            o.count()
            if 'added' in st.flags:
                o.witness(c.name)
                if 'announced' not in st.flags:
                    o.fail(P, f'{c.name}._add_downstream', 'self.space_available_downstream()',
                           'a connection added while the simulation runs does not trigger a hand-over attempt', file=c.mod.path,
                           line=dv.entry_fn(P, c, '_add_downstream').lineno, path=res.path_lines(g.exit, st))
    # ---- C03.9 re-entrancy audit ---------------------------------------------------------------------
    o = Ob('C03.9', 'K16', 'the protocol methods that other devices call back into (space_available_downstream, '
                           'notify_upstream_of_available_space) write no slot field and hand over no part')
    obs.append(o)
    ALLOWED = {'_waiting_for_downstream_space', '_waiting_for_part_since', '_recursion_prevention'}
    for c in dv.device_classes(P):
        for e in ('space_available_downstream', 'notify_upstream_of_available_space'):
            g = ctx.graph(c, e)
            for n in g.nodes.values():
                a = n.ast
                if n.kind == 'stmt' and isinstance(a, (ast.Assign, ast.AugAssign, ast.Delete)):
                    tg = a.targets if isinstance(a, (ast.Assign, ast.Delete)) else [a.target]
                    for t in tg:
                        base = t
                        while isinstance(base, ast.Subscript):
                            base = base.value
                        if is_self_attr(base):
                            o.count()
                            if base.attr not in ALLOWED:
                                o.fail(P, f'{c.name}.{e}', None, f'a notification handler writes device state ({base.attr}); it can run re-entrantly during a hand-over', node=n)
                            else:
                                o.witness((c.name, e, base.attr))
                for cl in calls_at(g, n):
                    if call_attr(cl) in ('give_part', '_pass_part_downstream', '_accept_part', 'pop', 'append', 'remove') and not (call_attr(cl) in ('pop', 'append', 'remove') and not is_self_attr(cl.func.value if isinstance(cl.func, ast.Attribute) else cl.func)):
                        o.count()
                        o.fail(P, f'{c.name}.{e}', None, 'a notification handler hands over or stores a part synchronously', node=n)
            o.count()

    # ---- C03.10 resource wait ----------------------------------------------------------------------------
    o = Ob('C03.10', 'K2', 'PartProcessor: a refusal for lack of resources registers a callback unless one is registered; the '
                           'callback clears the flag and notifies upstream')
    obs.append(o)
    if P.has_cls('PartProcessor'):
        resource_wait(ctx, o)

    # ---- C03.12 every candidate is offered ----------------------------------------------------------------------
    o = Ob('C03.12', 'K2', 'in every hand-over loop each downstream candidate is offered the part: no path through an iteration skips the give_part call '
                           '(a refusal of an earlier part says nothing about the next one)')
    obs.append(o)
    seen12 = set()
    for c in dv.device_classes(P):
        for k in c.mro:
            for nm, fn in k.methods.items():
                # candidate methods: a loop -- spelled as a for statement or as any()/all() over a generator -- that offers the part to its loop variable
                offers_in_loop = any(isinstance(l, (ast.For, ast.GeneratorExp)) and any(
                    isinstance(x, ast.Call) and call_attr(x) == 'give_part' and isinstance(x.func, ast.Attribute) and isinstance(x.func.value, ast.Name) for x in ast.walk(l))
                    for l in ast.walk(fn))
                if not offers_in_loop or P.lookup(c, nm) is None or P.lookup(c, nm)[2] is not fn or (k.qual, nm) in seen12:
                    continue
                seen12.add((k.qual, nm))
                g = ctx.graph(c, nm)
                for h in [n for n in g.nodes.values() if n.kind == 'for' and n.frame is g.top and isinstance(n.ast.target, ast.Name)]:
                    v = h.ast.target.id
                    offers = {n.id for n in g.nodes.values() if n.frame is h.frame and any(
                        call_attr(x) == 'give_part' and isinstance(x.func, ast.Attribute) and isinstance(x.func.value, ast.Name) and x.func.value.id == v
                        for x in ([n.ast] if n.kind == 'cond' and isinstance(n.ast, ast.Call) else calls_at(g, n)))}
                    body_starts = [m for l, m in g.succ[h.id] if l == 'T']
                    in_body = g.reach(body_starts, avoid=frozenset({h.id}), follow=lambda l: l != 'exc')
                    if not (offers & in_body):
                        continue            # another loop of the method
                    o.count()
                    skipped = h.id in g.reach(body_starts, avoid=frozenset(offers), follow=lambda l: l != 'exc')
                    if skipped:
                        o.fail(P, f'{k.name}.{nm}', h.ast, 'an iteration of the hand-over loop can go on to the next candidate without offering the part to this one: '
                               'a downstream that would accept the part is never asked', node=h)
                    else:
                        o.witness((k.name, nm))
    o.require(len(o.nontrivial) >= 2, 'fewer than 2 hand-over loops found (the device loop and the pass-through loop)')

    # ---- C03.11 restore ---------------------------------------------------------------------------------------
    o = Ob('C03.11', 'K2', 'a restored machine re-offers a finished part and announces free space whatever the waiting flag says '
                           '(notifications that arrived while it was down were ignored)')
    obs.append(o)
    if P.has_cls('PartProcessor'):
        from .c13 import restore_flow
        restore_flow(ctx, o)
    obs.append(ctx.shared('c10', 'C10.4', 'C03.13', 'a processor that waits for resources is woken by the callback it registered; that needs a registered request to stay in the '
                          'waiting list until it is served (withdrawn or reordered requests leave a waiting device asleep)'))
    obs.append(ctx.shared('c05', 'C05.4', 'C03.14', 'a finite-horizon run returns only if a hand-over deferred by the buffer delay is retried at a time at which the delay test passes: '
                          'the test and the retry time must be the same expression (arrival + delay against now, one ulp of slack), or the retry is re-scheduled at the same instant for ever'))
    obs.append(ctx.shared('c08', 'C08.8', 'C03.15', 'a freed device wakes the upstream devices it is attached to: set_upstream must attach to exactly the devices it stores, in a list '
                          'of its own (a caller that re-uses the list it passed would silently re-route the notifications)'))
    obs.append(ctx.shared('c09', 'C09.5', 'C03.16', 'a device waiting for resources is woken when its request fits: the test applied to a waiting request must be exactly '
                          '"every non-zero entry fits what is free now" (discounting amounts promised to earlier waiters leaves a later one asleep when the earlier one does not take them)'))
    return obs


def budget_hooks(P, c):
    """Source: ghost #exhausted (budget - produced < 1).  A comparison with that normal form, used as a test or assigned
    to a local, reads the ghost; writing the budget or the counter invalidates it."""
    N = Normalizer(P, c)

    def is_budget_test(test, fn, truth=True):
        r = cmp_norm(N, test, single_defs(fn), truth)
        if not r:
            return None
        lin, op = r
        rem_atoms = [k for k in lin.terms if 'self._max_produced_parts' in k and 'self._produced_parts' in k]
        direct = lin.terms.get('self._max_produced_parts') == 1 and lin.terms.get('self._produced_parts') == -1 and len(lin.terms) == 2
        one_atom = len(lin.terms) == 1 and rem_atoms and lin.terms[rem_atoms[0]] == 1
        if (direct or one_atom) and ((op == '<' and lin.const == -1) or (op == '<=' and lin.const == 0)):
            return True
        return None

    def node_hook(an, n, before, after):
        a = n.ast
        st = after
        if n.kind == 'stmt' and isinstance(a, ast.Assign) and len(a.targets) == 1 and isinstance(a.targets[0], ast.Name):
            if is_budget_test(a.value, n.frame.func):
                st = st.copy()
                st.locals[(n.frame.id, a.targets[0].id)] = before.fields.get('#exhausted', TOP)
        if n.kind == 'stmt' and isinstance(a, (ast.Assign, ast.AugAssign)):
            tg = a.targets if isinstance(a, ast.Assign) else [a.target]
            if any(is_self_attr(t) and t.attr in ('_max_produced_parts', '_produced_parts') for t in tg):
                st = st.with_field('#exhausted', TOP)
        return st

    def refine_hook(an, test, truth, st, frame):
        if is_budget_test(test, frame.func):
            cur = st.fields.get('#exhausted', TOP)
            want = 'T' if truth else 'F'
            if cur in ('T', 'F') and cur != want:
                return None
            return st.with_field('#exhausted', want) if cur != want else st
        return NotImplemented
    return node_hook, refine_hook


BUF_CONC = {'0': [0], '1': [1], 'M': [2, 3]}


def buffer_hooks():
    import operator
    OPS = {'Gt': operator.gt, 'GtE': operator.ge, 'Lt': operator.lt, 'LtE': operator.le, 'Eq': operator.eq, 'NotEq': operator.ne}

    def node_hook(an, n, before, after):
        if n.kind != 'stmt':
            return after
        outs = [after]
        for cl in calls_at(an.g, n):
            f = cl.func
            if not (isinstance(f, ast.Attribute) and is_self_attr(f.value, '_buffer')):
                continue
            if f.attr in ('append', 'insert'):
                outs = [o.with_field('#buf', {'0': '1', '1': 'M', 'M': 'M'}[o.fields['#buf']]) for o in outs]
            elif f.attr == 'clear':
                outs = [o.with_field('#buf', '0') for o in outs]
        for _ in dv.list_removals(n, '_buffer'):          # pop / remove / popleft / del [i]
            nxt = []
            for o in outs:
                b = o.fields['#buf']
                if b == '0':
                    nxt.append(o.with_flag('POP-FROM-EMPTY'))
                elif b == '1':
                    nxt.append(o.with_field('#buf', '0'))
                else:
                    nxt.append(o.with_field('#buf', '1'))
                    nxt.append(o.with_field('#buf', 'M'))
            outs = nxt
        return outs

    def refine_hook(an, test, truth, st, frame):
        t = test
        if isinstance(t, ast.Compare) and len(t.ops) == 1 and ast.unparse(t.left) == 'len(self._buffer)' \
                and isinstance(t.comparators[0], ast.Constant) and isinstance(t.comparators[0].value, int):
            op, k = type(t.ops[0]).__name__, t.comparators[0].value
            if op in OPS:
                b = st.fields['#buf']
                poss = [v for v in BUF_CONC[b] if OPS[op](v, k) == truth]
                return st if poss else None
        if is_self_attr(t, '_buffer') or ast.unparse(t) == 'len(self._buffer)':
            b = st.fields['#buf']
            return st if (b != '0') == truth else None
        return NotImplemented
    return node_hook, refine_hook


def buffer_retry(ctx, o):
    P = ctx.P
    c = P.cls('Buffer')
    nh, rh = buffer_hooks()
    tracked = ['_part', '_output', '_block_input', '_is_shut_down', '_waiting_for_downstream_space', '#pending', '#buf']
    actions = dv.action_event_types(P)

    def J(f):
        return f['#buf'] == '0' or f['_waiting_for_downstream_space'] == 'T' or f['#pending'] == 'T'
    dom = {'_part': ['N'], '_output': ['N'], '_block_input': ['F'], '_is_shut_down': ['F'],
           '_waiting_for_downstream_space': ['T', 'F'], '#pending': ['T', 'F'], '#buf': ['0', '1', 'M']}

    def entry_filter(e, kind, s0):
        if 'PASS_PART' in actions.get(e, ()):
            return s0
        return s0 if J(s0.fields) else None
    for e, kind, g, s0, res in dv.explore_all(ctx, c, tracked, dom, None, node_hooks=[dv.ghost_hook({'#pending'}), nh], refine_hooks=[rh],
                                              entry_filter=entry_filter):
        for st in res.exits():
            o.count()
            if st.fields['#buf'] != '0':
                o.witness(('nonempty-exit', e))
            if 'POP-FROM-EMPTY' in st.flags:
                ln = dv.last_node(res, g.exit, st, lambda n: bool(dv.list_removals(n, '_buffer')))
                o.fail(P, f'Buffer.{e}', ln.ast if ln else e, 'the head of the buffer is removed while the buffer may be empty', node=ln,
                       file=c.mod.path, path=res.path_lines(g.exit, st))
            if not J(st.fields) or dv.full(st.fields['_part']) or dv.full(st.fields['_output']):
                ln = dv.last_node(res, g.exit, st, lambda n: n.kind in ('stmt', 'cond') and n.ast is not None)
                what = 'stored parts are left without an armed retry (no waiting flag, no pending attempt)' if not J(st.fields) \
                    else 'a part is left in the input/output slot instead of the list'
                o.fail(P, f'Buffer.{e}', ln.ast if ln else e, f'{what}: entry {s0.show()} -> exit {st.show()}', node=ln, file=c.mod.path,
                       path=res.path_lines(g.exit, st))
    for st in construct_and_initialize(ctx, c, tracked, extra_hooks=[dv.ghost_hook({'#pending'}), nh]):
        o.count()
    o.sample({'abstraction': '#buf in {0, 1, many}; append: 0->1->M->M; pop(0): 1->0, M->{1, M}',
              'invariant': 'non-empty => waiting flag or live PASS_PART pending'})


def resource_wakeups(ctx, o6, o7):
    P = ctx.P
    RM = P.cls('ResourceManager')
    N = Normalizer(P, RM)

    def hook(an, n, before, after):
        st = after
        a = n.ast
        if n.kind == 'stmt' and isinstance(a, (ast.Assign, ast.AugAssign, ast.Delete)):
            tg = a.targets if isinstance(a, (ast.Assign, ast.Delete)) else [a.target]
            for t in tg:
                base = t
                while isinstance(base, ast.Subscript):
                    base = base.value
                if is_self_attr(base) and base.attr in ('_resources', '_waiting_requests') and (base is not t or isinstance(a, ast.Delete)):
                    st = st.with_flag('mutated').without_flag('check')
        for cl in calls_at(an.g, n):
            f = cl.func
            if isinstance(f, ast.Attribute) and is_self_attr(f.value) and f.value.attr in ('_resources', '_waiting_requests') \
                    and f.attr in ('append', 'insert', 'pop', 'remove', 'clear', 'update', 'setdefault', '__setitem__', 'extend'):
                st = st.with_flag('mutated').without_flag('check')
            if call_attr(cl) == 'schedule_event' and sched_action_name(cl) == '_check_pending_requests':
                b = bind_call(cl, SCHED_PARAMS)
                if 'time' in b and N.norm(b['time']).is_({'NOW': 1}):
                    st = st.with_flag('check')
                else:
                    st = st.with_flag('check-late')
        return st
    # reserve_resources only raises usage (normal form checked by C09.4/C09.5): it cannot make a waiting request feasible
    ents = {e: k for e, k in dv.entry_points(P, RM).items() if e not in ('initialize', '_check_pending_requests', 'reserve_resources')}
    o6.require(len(ents) >= 5, f'only {len(ents)} entry points of ResourceManager found')
    mutators = set()
    for e in sorted(ents):
        g = ctx.graph(RM, e)
        an = Analysis(P, g, ['_env'])
        an.node_hooks.append(hook)
        res = ctx.explore(an, [State({'_env': 'S'})])
        for st in res.exits():
            o6.count()
            if 'mutated' in st.flags:
                mutators.add(e)
                o6.witness(e)
                if 'check' not in st.flags:
                    ln = dv.last_node(res, g.exit, st, lambda n: n.kind == 'stmt' and isinstance(n.ast, (ast.Assign, ast.Expr)))
                    o6.fail(P, f'ResourceManager.{e}', 'self._schedule_check_pending_requesters()',
                            'a pool or the waiting list changed but no check of the waiting requests is scheduled for the current instant'
                            + (' (scheduled for a later time)' if 'check-late' in st.flags else ''),
                            file=RM.mod.path, line=dv.entry_fn(P, RM, e).lineno, path=res.path_lines(g.exit, st))
    for need in ('add_resources', '_release_resources', 'reserve_resources_with_callback'):
        o6.count()
        o6.require(need in mutators, f'{need} is not seen to change a pool or the waiting list; the rule would pass vacuously')
    o6.sample({'mutating_entry_points': sorted(mutators)})
    # the check event must not be pausable/cancellable with a device: asset id is not a device id
    for s in inv.method_calls(P, 'schedule_event'):
        if s.cls is RM:
            o6.count()
            b = bind_call(s.node, SCHED_PARAMS)
            if 'asset_id' not in b or ast.unparse(b['asset_id']) != '-1':
                o6.fail(P, s.ctx, s.node, 'the availability check is scheduled under an asset id, so a device shutdown could pause it', file=s.mod.path, line=s.line)
    # C03.7
    g = ctx.graph(RM, '_check_pending_requests')
    problems, head = dv.scan_shape(g, '_waiting_requests')
    o7.count(max(1, len(problems)))
    for node, msg in problems:
        o7.fail(P, 'ResourceManager._check_pending_requests', node.ast if node is not None and node.ast is not None else 'while i < len(self._waiting_requests)',
                msg, node=node if node is not None else None, file=RM.mod.path, line=P.method(RM, '_check_pending_requests')[1].lineno)
    if not problems:
        o7.witness('scan')
        o7.sample({'loop': head.src(), 'file': P.rel(head.file), 'line': head.line, 'rule': 'each body path: exactly one of {pop(i), i += 1}'})


def resource_wait(ctx, o):
    P = ctx.P
    c = P.cls('PartProcessor')
    g = ctx.graph(c, '_can_accept_part', boolean=True)
    tracked = ['_part', '_output', '_is_shut_down', '_block_input', '_waiting_for_resources', '_reserved_resources', '_resources_for_processing']

    def hook(an, n, before, after):
        st = after
        for cl in calls_at(an.g, n):
            if call_attr(cl) == 'reserve_resources_with_callback':
                cb = cl.args[1] if len(cl.args) > 1 else next((k.value for k in cl.keywords if k.arg == 'callback'), None)
                rq = cl.args[0] if cl.args else next((k.value for k in cl.keywords if k.arg == 'request'), None)
                from ..norm import subst as _sb
                rq = _sb(rq, FrameEnv(n.frame)) if rq is not None else None       # through a local (`needed = self._resources_for_processing`)
                cb = _sb(cb, FrameEnv(n.frame)) if cb is not None else None
                good = cb is not None and is_self_attr(cb) and rq is not None and is_self_attr(rq, '_resources_for_processing')
                st = st.with_flag(('registered2' if 'registered' in st.flags else 'registered') if good else 'registered-wrong')
                if good:
                    st = st.with_flag('cb:' + cb.attr)
        return st
    an = Analysis(P, g, tracked, call_models={'reserve_resources': TOP})
    an.node_hooks.append(hook)
    cbs = set()
    for w in 'TF':
        s0 = State({'_part': 'N', '_output': 'N', '_is_shut_down': 'F', '_block_input': 'F', '_waiting_for_resources': w,
                    '_reserved_resources': 'N', '_resources_for_processing': 'S'})
        s0.locals[(g.top.id, 'part')] = 'S'
        res = ctx.explore(an, [s0])
        for st in res.at(g.exitF):
            o.count()
            o.witness(('refused', w))
            reg = 'registered' in st.flags
            cbs |= {f[3:] for f in st.flags if f.startswith('cb:')}
            if st.fields['_waiting_for_resources'] != 'T' or 'registered-wrong' in st.flags or 'registered2' in st.flags or (w == 'F') != reg:
                o.fail(P, 'PartProcessor._can_accept_part', 'reserve_resources_with_callback(self._resources_for_processing, self._reserve_resource_callback)',
                       f'resource refusal with waiting flag {w} at entry: callback registered={reg}, flag at exit={st.fields["_waiting_for_resources"]} '
                       '(must register exactly one callback for the declared requirement and leave the flag set)',
                       file=c.mod.path, line=P.method(c, '_can_accept_part')[1].lineno, path=res.path_lines(g.exitF, st))
        for st in res.at(g.exitT):
            o.count()
            if st.fields['_reserved_resources'] == 'N':
                o.fail(P, 'PartProcessor._can_accept_part', 'return True', 'accepts with a declared requirement but without a reservation',
                       file=c.mod.path, line=P.method(c, '_can_accept_part')[1].lineno, path=res.path_lines(g.exitT, st))
    if not cbs:
        o.fail(P, 'PartProcessor._can_accept_part', 'reserve_resources_with_callback', 'no resource callback is ever registered', file=c.mod.path,
               line=P.method(c, '_can_accept_part')[1].lineno)
    for cb in sorted(cbs):
        if not P.has_method(c, cb):
            continue
        g2 = ctx.graph(c, cb)
        an2 = Analysis(P, g2, tracked)
        an2.node_hooks.append(dv.notify_hook)
        # The manager has forgotten the request when it calls back, whatever state the device is in by then (a machine can be shut down
        # or blocked while it waits): the flag must be cleared in every state, or _can_accept_part never registers again and no later
        # release reaches this device (seeded change C03-23: a guard `if not self.is_operational(): return` in front of the reset).
        for down, blocked in (('F', 'F'), ('T', 'F'), ('F', 'T'), ('T', 'T')):
            s0 = State({'_part': 'N', '_output': 'N', '_is_shut_down': down, '_block_input': blocked, '_waiting_for_resources': 'T',
                        '_reserved_resources': 'N', '_resources_for_processing': 'S'})
            res = ctx.explore(an2, [s0])
            for st in res.exits():
                o.count()
                o.witness(('callback', cb, down, blocked))
                if st.fields['_waiting_for_resources'] != 'F':
                    o.fail(P, f'PartProcessor.{cb}', cb, 'the resource callback must clear the waiting flag in every state of the device (the manager has already '
                           f'dropped the request; here: shut down={down}, input blocked={blocked}) -- otherwise the device never asks again',
                           file=c.mod.path, line=P.method(c, cb)[1].lineno, path=res.path_lines(g2.exit, st))
                elif 'notified' not in st.flags and down == 'F' and blocked == 'F':
                    o.fail(P, f'PartProcessor.{cb}', cb, 'the resource callback must clear the waiting flag and notify the upstream devices',
                           file=c.mod.path, line=P.method(c, cb)[1].lineno, path=res.path_lines(g2.exit, st))
    # the flag has no other writer
    for s in inv.attr_stores(P, '_waiting_for_resources'):
        o.count()
        if s.cls is not c or s.func.name not in inv.covered(P, {'__init__', '_can_accept_part'} | cbs):
            o.fail(P, s.ctx, s.stmt, 'the waiting-for-resources flag is written outside the acceptance test and its callback', file=s.mod.path, line=s.line)


CLAIM = {
    'technique': 'static analysis: inductive typestate invariants with event ghosts (live/paused/none) over all computed entry points '
                 'and abstract states of every device class; must-call-after on ResourceManager; scan-shape rule; re-entrancy audit',
    'level_text': 'The wake-after-free obligation and the retry invariant are shown inductive (step for every entry point and state, base after '
                  'construction+initialisation) at the level of one device and its protocol; termination of runs is not decided.',
    'level_note': 'Run-to-completion; refusal by the offered downstream is decided by C02.1; DecisionGate predicates assumed to depend only on the part.',
}
