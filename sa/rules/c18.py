"""C18 -- action schedules follow their timetable."""
import ast
import re

from .. import AnalysisError
from ..report import Ob
from ..cfg import calls_at, call_attr, is_self_attr
from ..state import Analysis, State, TOP, sched_calls, sched_event_type, sched_action_name, bind_call, SCHED_PARAMS
from ..norm import subst, Normalizer, cmp_norm, cmp_polarity, FrameEnv, ctext
from .. import inventory as inv
from .. import devices as dv

EXPLANATION = '''
Static analysis of simprocesd/model/factory_floor/action_scheduler.py.
Decided: (C18.1) one transition step: advance = index + 1; for a non-cyclical schedule whose index has run past the end the
step returns before any state change, record, action or scheduling; otherwise the index wraps modulo the schedule
length; the start-up step (advance false) changes no index; (C18.2) the state becomes schedule[index][1] and the next
transition is scheduled at now + schedule[index][0] for the same index, under the scheduler's id, running _update_state;
(C18.3) after the state store the action runs for every (object, override) pair of the registration dict in dict order:
default_action(object, now, state) without an override, override(scheduler, object, now, state) with one; (C18.4)
initialize performs the start-up step; (C18.5) register_object adds only if absent and answers accordingly,
unregister_object deletes and answers accordingly; (C18.6) the documented default of is_cyclical equals the signature
default; the timetable and the flag are fixed after construction.
NOT decided: the state at an arbitrary time of a long run (sums of float durations).
'''
ASSUMPTIONS = ['dicts preserve insertion order']
MIN_INSTANCES = 25


def doc_default(cls_node, fn, param):
    """(documented default, signature default) as canonical strings"""
    doc = ast.get_docstring(cls_node) or ''
    m = re.search(r'^\s*' + re.escape(param) + r'\s*:\s*[^\n]*?default\s*=\s*([^\n]+?)\s*$', doc, re.M)
    a = fn.args
    params = a.posonlyargs + a.args
    d = dict(zip([p.arg for p in params][len(params) - len(a.defaults):], a.defaults))

    def canon(x):
        x = x.strip().rstrip('.').strip()
        try:
            return repr(ast.literal_eval(x))
        except Exception:
            return x.replace(' ', '')
    return (canon(m.group(1)) if m else None), (canon(ast.unparse(d[param])) if param in d else None)



def registry_iteration(e):
    """(iterates the (object, override) pairs of the registry in its order, iterates a snapshot) for the iterable of a loop"""
    snap = False
    # zip(tuple(d.keys()), tuple(d.values())) / zip(tuple(d), tuple(d.values())): two snapshots taken back to back pair each object with its override
    if isinstance(e, ast.Call) and isinstance(e.func, ast.Name) and e.func.id == 'zip' and len(e.args) == 2 and not e.keywords:
        def snap_of(x, what):
            if isinstance(x, ast.Call) and isinstance(x.func, ast.Name) and x.func.id in ('list', 'tuple') and len(x.args) == 1 and not x.keywords:
                y = x.args[0]
                if what == 'keys' and ast.unparse(y) in ('self._registered_objects', 'self._registered_objects.keys()'):
                    return True
                if what == 'values' and ast.unparse(y) == 'self._registered_objects.values()':
                    return True
            return False
        return snap_of(e.args[0], 'keys') and snap_of(e.args[1], 'values'), True
    while True:
        if isinstance(e, ast.Call) and isinstance(e.func, ast.Name) and e.func.id in ('list', 'tuple') and len(e.args) == 1 and not e.keywords:
            e, snap = e.args[0], True
            continue
        break
    if not (isinstance(e, ast.Call) and isinstance(e.func, ast.Attribute) and e.func.attr == 'items' and not e.args and not e.keywords):
        return False, snap
    b = e.func.value
    if isinstance(b, ast.Call) and isinstance(b.func, ast.Attribute) and b.func.attr == 'copy' and not b.args:
        b, snap = b.func.value, True
    elif isinstance(b, ast.Call) and isinstance(b.func, ast.Name) and b.func.id == 'dict' and len(b.args) == 1 and not b.keywords:
        b, snap = b.args[0], True
    return ast.unparse(b) == 'self._registered_objects', snap


def check(ctx):
    P = ctx.P
    if not P.has_cls('ActionScheduler'):
        raise AnalysisError('class ActionScheduler not found')
    c = P.cls('ActionScheduler')
    N = Normalizer(P, c)
    obs = []
    g = ctx.graph(c, '_update_state', opaque=('default_action',))
    fn = P.method(c, '_update_state')[1]
    adv = fn.args.args[1].arg

    def end_refine(an, test, truth, st, frame):
        # "the index has run past the end":  len(schedule) - index <= 0 ; recognised in either polarity and any spelling
        pol = cmp_polarity(N, test, FrameEnv(frame), {'len(self._schedule)': 1, 'self._schedule_index': -1}, '<=')
        if pol is None:
            return NotImplemented
        cur = st.fields.get('#end', TOP)
        want = 'T' if (truth == (pol == 1)) else 'F'
        if cur in ('T', 'F') and cur != want:
            return None
        return st.with_field('#end', want) if cur != want else st

    def hook(an, n, before, after):
        st = after
        a = n.ast
        order = [f for f in ('advanced', 'wrapped', 'state', 'recorded', 'actions', 'scheduled') if f in st.flags]

        def mark(k, ok=True):
            nonlocal st
            if not ok:
                st = st.with_flag(k + '-wrong')
            elif k in st.flags:
                st = st.with_flag(k + '-twice')
            else:
                st = st.with_flag(k).with_flag(f'order:{"".join(x[0] for x in order)}>{k[0]}')
        if n.kind == 'stmt' and isinstance(a, (ast.Assign, ast.AugAssign)):
            tg = a.targets if isinstance(a, ast.Assign) else [a.target]
            if any(is_self_attr(t, '_schedule_index') for t in tg):
                env_ = FrameEnv(n.frame)
                is_mod = isinstance(a, ast.AugAssign) and isinstance(a.op, ast.Mod)
                if is_mod:
                    mark('wrapped', ctext(a.value, env_) == 'len(self._schedule)')
                elif isinstance(a, ast.Assign) and isinstance(a.value, ast.BinOp) and isinstance(a.value.op, ast.Mod):
                    mark('wrapped', ctext(a.value.left, env_) == 'self._schedule_index' and ctext(a.value.right, env_) == 'len(self._schedule)')
                else:
                    newv = N.norm(ast.BinOp(left=a.target, op=a.op, right=a.value) if isinstance(a, ast.AugAssign) else a.value, env_)
                    mark('advanced', newv.is_({'self._schedule_index': 1}, 1))
            if any(is_self_attr(t, '_state') for t in tg):
                mark('state', isinstance(a, ast.Assign) and ctext(a.value, FrameEnv(n.frame)) == 'self._schedule[self._schedule_index][1]')
        for cl in calls_at(an.g, n):
            if call_attr(cl) == 'add_datapoint':
                mark('recorded')
            if call_attr(cl) == 'schedule_event':
                b = bind_call(cl, SCHED_PARAMS)
                t = N.norm(b['time'], FrameEnv(n.frame)) if 'time' in b else None
                good = t is not None and t.is_({'NOW': 1, 'self._schedule[self._schedule_index][0]': 1}) and ctext(b.get('asset_id', ast.Constant(0)), FrameEnv(n.frame)) == 'self.id' \
                    and sched_action_name(cl) == '_update_state'
                mark('scheduled', good)
        if n.kind == 'for' and '_registered_objects' in ctext(n.ast.iter, FrameEnv(n.frame)) and 'actions' not in st.flags:
            mark('actions', registry_iteration(subst(n.ast.iter, FrameEnv(n.frame)))[0])
        return st
    an = Analysis(P, g, ['_is_cyclical', '#end'])
    an.node_hooks.append(hook)
    an.refine_hooks.append(end_refine)
    o1 = Ob('C18.1', 'K2+K6', 'one step: advance = index + 1; non-cyclical and past the end => return before anything else; otherwise wrap modulo the length; start-up step changes no index')
    o2 = Ob('C18.2', 'K8+K6', 'state := schedule[index][1]; next transition at now + schedule[index][0] for the same index, own id, action _update_state')
    obs += [o1, o2]
    import itertools
    for av, cyc, end in itertools.product('TF', 'TF', 'TF'):
        s0 = State({'_is_cyclical': cyc, '#end': end})
        s0.locals[(g.top.id, adv)] = av
        res = ctx.explore(an, [s0])
        o1.require(res.exits(), '_update_state has no normal exit')
        for st in res.exits():
            o1.count()
            o2.count()
            fl = {f for f in st.flags if not f.startswith('order:')}
            wrong = sorted(f for f in fl if f.endswith('-wrong') or f.endswith('-twice'))
            stops = av == 'T' and cyc == 'F' and end == 'T'
            if av == 'F':
                want = {'state', 'recorded', 'actions', 'scheduled'}
            elif stops:
                want = {'advanced'}
            else:
                want = {'advanced', 'wrapped', 'state', 'recorded', 'actions', 'scheduled'}
            o1.witness((av, cyc, end))
            idx_part = {f for f in fl if f in ('advanced', 'wrapped')}
            # an index that has not run past the end is its own remainder: wrapping it is optional there
            ok_idx = idx_part == (want & {'advanced', 'wrapped'}) or (end == 'F' and av == 'T' and idx_part == {'advanced'})
            if not ok_idx or [w for w in wrong if w.split('-')[0] in ('advanced', 'wrapped')]:
                o1.fail(P, 'ActionScheduler._update_state', 'self._schedule_index = self._schedule_index + 1 ... %= len(self._schedule)',
                        f'with advance={av == "T"}, cyclical={cyc == "T"}, index past the end={end == "T"} the index steps are {sorted(idx_part) + wrong}; expected {sorted(want & {"advanced", "wrapped"})}',
                        file=c.mod.path, line=fn.lineno, path=res.path_lines(g.exit, st))
            rest = fl - {'advanced', 'wrapped'} - set(wrong)
            if stops and rest:
                o1.fail(P, 'ActionScheduler._update_state', 'if not self._is_cyclical and self._schedule_index >= len(self._schedule): return',
                        f'a finished non-cyclical schedule still does {sorted(rest)} (it must stay in its last state forever)', file=c.mod.path, line=fn.lineno,
                        path=res.path_lines(g.exit, st))
            if not stops:
                o2.witness((av, cyc, end))
                wr = [w for w in wrong if w.split('-')[0] in ('state', 'scheduled', 'recorded', 'actions')]
                if rest != {'state', 'recorded', 'actions', 'scheduled'} or wr:
                    o2.fail(P, 'ActionScheduler._update_state', 'self._state = self._schedule[self._schedule_index][1]; ...; self._schedule_next_transition(self._schedule[self._schedule_index][0])',
                            f'a transition must set the state from the timetable, record it, run the actions and schedule the next transition after the state duration, once each; found {sorted(rest) + wr}',
                            file=c.mod.path, line=fn.lineno, path=res.path_lines(g.exit, st))
                # order: index updates before the state is read; the state before the actions; scheduling uses the same index
                orders = sorted(f for f in st.flags if f.startswith('order:'))
                seq = []
                for f in sorted(orders, key=lambda x: len(x)):
                    seq.append(f.split('>')[1])
                want_seq = [k[0] for k in ('advanced', 'wrapped', 'state', 'recorded', 'actions', 'scheduled') if k in want]
                pos = {k: i for i, k in enumerate(seq)}
                bad_order = ('s' in pos and 'a' in pos and av == 'T' and pos['s'] < pos['a'] and 'advanced' in want) or \
                            ('w' in pos and 's' in pos and pos['s'] < pos['w']) or ('a' in pos and 's' in pos and False)
                # state before actions
                so = [f for f in orders if f.endswith('>a') and 'actions' in fl]
                if 'actions' in fl and 'state' in fl and not any('s' in f.split(':')[1].split('>')[0] for f in orders if f.endswith('>a')):
                    bad_order = True
                if bad_order:
                    o2.fail(P, 'ActionScheduler._update_state', 'order of index update / state store / actions', 'the steps of a transition are out of order '
                            '(the index must be final before the state is read, the state stored before the actions run)', file=c.mod.path, line=fn.lineno,
                            path=res.path_lines(g.exit, st))
    o1.sample({'cases': 'advance x cyclical x past-the-end (8 combinations)', 'graph_nodes': len(g.nodes)})
    o2.sample({'time_normal_form': 'NOW + self._schedule[self._schedule_index][0]', 'state': 'self._schedule[self._schedule_index][1]'})
    for attr in ('_schedule', '_is_cyclical'):
        for s in inv.attr_stores(P, attr):
            if s.cls is c:
                o1.count()
                if s.func.name != '__init__':
                    o1.fail(P, s.ctx, s.stmt, f'{attr} is changed after construction', file=s.mod.path, line=s.line)
    for s in inv.attr_stores(P, '_schedule_index'):
        o1.count()
        if not (s.cls is c and s.func.name in inv.covered(P, {'__init__', '_update_state'})):
            o1.fail(P, s.ctx, s.stmt, 'the schedule index is written outside _update_state', file=s.mod.path, line=s.line)
    init = P.method(c, '__init__')[1]
    o1.count()
    cyc_param = 'is_cyclical'
    if not any(isinstance(x, ast.Assign) and is_self_attr(x.targets[0], '_is_cyclical') and ast.unparse(x.value) == cyc_param for x in ast.walk(init)) or \
            not any(isinstance(x, ast.Assign) and is_self_attr(x.targets[0], '_schedule_index') and ast.unparse(x.value) == '0' for x in ast.walk(init)):
        o1.fail(P, 'ActionScheduler.__init__', 'self._is_cyclical = is_cyclical; self._schedule_index = 0', 'the scheduler does not start at index 0 with the given cyclical flag',
                file=c.mod.path, line=init.lineno)

    # ---- C18.3 -------------------------------------------------------------------------------------
    o = Ob('C18.3', 'K2', 'for every (object, override) in registration order: default_action(object, now, state) without override, override(scheduler, object, now, state) with one')
    obs.append(o)
    # one iteration of the loop over the registered objects is explored (L9) for both values of the ghost "this object has an override":
    # exactly one call happens, the right one with the right arguments -- whichever branch comes first and however the test is spelled
    heads = [n_ for n_ in g.nodes.values() if n_.kind == 'for' and '_registered_objects' in ctext(n_.ast.iter, FrameEnv(n_.frame))]
    o.count()
    okl = False
    why = ''
    if len(heads) == 1 and registry_iteration(subst(heads[0].ast.iter, FrameEnv(heads[0].frame)))[0] \
            and isinstance(heads[0].ast.target, ast.Tuple) and len(heads[0].ast.target.elts) == 2 and all(isinstance(e, ast.Name) for e in heads[0].ast.target.elts):
        head = heads[0]
        ob_, ac_ = [e.id for e in head.ast.target.elts]

        def m_override(test, frame):
            """`action == None` <=> no override"""
            t = test
            if isinstance(t, ast.Compare) and len(t.ops) == 1 and isinstance(t.comparators[0], ast.Constant) and t.comparators[0].value is None \
                    and ctext(t.left, FrameEnv(frame)) == ac_:
                if isinstance(t.ops[0], (ast.Eq, ast.Is)):
                    return False
                if isinstance(t.ops[0], (ast.NotEq, ast.IsNot)):
                    return True
            if ctext(t, FrameEnv(frame)) == ac_:
                return True
            return None

        def nowstate(args, frame):
            return len(args) == 2 and N.norm(args[0], FrameEnv(frame)).is_({'NOW': 1}) and N.norm(args[1], FrameEnv(frame)).key() == 'self._state'

        def call_hook(an_, n, before, after):
            st = after
            for cl in calls_at(an_.g, n):
                env_ = FrameEnv(n.frame)
                f_ = ctext(cl.func, env_)
                if f_ == 'self.default_action':
                    good = len(cl.args) == 3 and not cl.keywords and ctext(cl.args[0], env_) == ob_ and nowstate(cl.args[1:], n.frame)
                    st = st.with_flag(('default2' if 'default' in st.flags else 'default') if good else 'default-wrong-args')
                elif f_ == ac_:
                    good = len(cl.args) == 4 and not cl.keywords and [ctext(x, env_) for x in cl.args[:2]] == ['self', ob_] and nowstate(cl.args[2:], n.frame)
                    st = st.with_flag(('override2' if 'override' in st.flags else 'override') if good else 'override-wrong-args')
            return st
        an3 = Analysis(P, g, ['#override'])
        an3.refine_hooks.insert(0, dv.ghost_refiner([('#override', m_override)]))
        an3.node_hooks.append(call_hook)
        okl = True
        for ov in 'TF':
            s0 = State({'#override': ov})
            res3 = an3.run([s0], start=[m for l, m in g.succ[head.id] if l == 'T'], stop=[head.id])
            back = res3.at(head.id)
            left = [st for nid in (g.exit,) for st in res3.at(nid)]
            if not back or left:
                okl, why = False, ' (an iteration can leave the loop before every object was served)'
            for st in back:
                fl = {f for f in st.flags if f.startswith(('default', 'override'))}
                if fl != ({'override'} if ov == 'T' else {'default'}):
                    okl, why = False, f' (an object {"with" if ov == "T" else "without"} an override gets {sorted(fl) or "no call"})'
    if not okl:
        o.fail(P, 'ActionScheduler._update_state', 'for obj, action in self._registered_objects.items(): ...',
               'the action is not invoked once per registered object in registration order with (object, now, state) / (scheduler, object, now, state)' + why, file=c.mod.path, line=fn.lineno)
    else:
        o.witness('action-loop')
        o.sample({'loop': heads[0].src(), 'line': heads[0].line})
        # an action may register or unregister objects ("affected only from the next change on"): the loop walks a snapshot of the
        # registry -- walking the dictionary itself aborts the state change as soon as an action changes its size
        o.count()
        if registry_iteration(subst(heads[0].ast.iter, FrameEnv(heads[0].frame)))[1]:
            o.witness('snapshot')
        else:
            o.fail(P, 'ActionScheduler._update_state', heads[0].ast.iter, 'the actions are performed while iterating over the registry itself: an action that registers or '
                   'unregisters an object aborts the state change (RuntimeError: dictionary changed size during iteration) and the objects after it are not served, '
                   'instead of the change taking effect from the next state change on', node=heads[0])
    # the actions are performed by state changes only: nothing else (a registration, a query) invokes default_action or a stored override
    owners = inv.covered(P, {'_update_state', 'initialize'})       # (initialize performs the start-up state entry -- C18.4)
    for s_ in inv.method_calls(P, 'default_action'):
        if s_.cls is not None and c in s_.cls.mro:
            o.count()
            if s_.func is None or s_.func.name not in owners:
                o.fail(P, s_.ctx, s_.node, 'an action is performed outside a state change: an object would receive an action call that belongs to no state change it was registered for',
                       file=s_.mod.path, line=s_.line)
    pg = P.lookup_prop(c, 'current_state', 'get')
    o.count()
    if not pg or ast.unparse(pg[1].body[-1]) != 'return self._state':
        o.fail(P, 'ActionScheduler.current_state', 'return self._state', 'current_state does not report the state', file=c.mod.path, line=c.node.lineno)

    # ---- C18.4 --------------------------------------------------------------------------------------
    o = Ob('C18.4', 'K3', 'initialize performs the start-up step _update_state(False): state 0 is entered and its actions run, without advancing')
    obs.append(o)
    gi = ctx.graph(c, 'initialize', opaque=('default_action',))
    an2 = Analysis(P, gi, ['_is_cyclical', '#end'])
    an2.node_hooks.append(hook)
    an2.refine_hooks.append(end_refine)
    res = ctx.explore(an2, [State({'_is_cyclical': TOP, '#end': TOP})])
    o.require(res.exits(), 'ActionScheduler.initialize has no normal exit')
    for st in res.exits():
        o.count()
        fl = {f for f in st.flags if not f.startswith('order:')}
        o.witness('initialize')
        if fl != {'state', 'recorded', 'actions', 'scheduled'}:
            o.fail(P, 'ActionScheduler.initialize', 'self._update_state(False)', f'at start-up the scheduler must enter its first state without advancing; it does {sorted(fl)}',
                   file=c.mod.path, line=P.method(c, 'initialize')[1].lineno, path=res.path_lines(gi.exit, st))

    # ---- C18.5 ---------------------------------------------------------------------------------------
    o = Ob('C18.5', 'K2', 'register_object adds (object -> override) only if absent and returns whether it did; unregister_object deletes and returns whether it did')
    obs.append(o)
    gr = ctx.graph(c, 'register_object', boolean=True)
    fr = P.method(c, 'register_object')[1]
    ob_, ov_ = [a.arg for a in fr.args.args][1:3]

    def rhook(an_, n, before, after):
        a = n.ast
        if n.kind == 'stmt' and isinstance(a, ast.Assign) and ast.unparse(a.targets[0]) == f'self._registered_objects[{ob_}]':
            return after.with_flag('added' if ast.unparse(a.value) == ov_ else 'added-wrong')
        return after

    def rrefine(an_, test, truth, st, frame):
        t = test
        if isinstance(t, ast.Compare) and len(t.ops) == 1 and ast.unparse(t.left) == ob_ and ast.unparse(t.comparators[0]) == 'self._registered_objects' \
                and isinstance(t.ops[0], (ast.In, ast.NotIn)):
            present = truth if isinstance(t.ops[0], ast.In) else not truth
            cur = st.fields['#present']
            want = 'T' if present else 'F'
            if cur in ('T', 'F') and cur != want:
                return None
            return st.with_field('#present', want)
        return NotImplemented
    an3 = Analysis(P, gr, ['#present'])
    an3.node_hooks.append(rhook)
    an3.refine_hooks.append(rrefine)
    for pres in 'TF':
        res = ctx.explore(an3, [State({'#present': pres})])
        for ex, truth in ((gr.exitT, True), (gr.exitF, False)):
            for st in res.at(ex):
                o.count()
                o.witness(('register', pres, truth))
                want_added = pres == 'F'
                if ('added' in st.flags) != want_added or truth != want_added or 'added-wrong' in st.flags:
                    o.fail(P, 'ActionScheduler.register_object', f'self._registered_objects[{ob_}] = {ov_}',
                           f'registering an object that is {"already" if pres == "T" else "not yet"} registered: stored={"added" in st.flags}, returns {truth}',
                           file=c.mod.path, line=fr.lineno, path=res.path_lines(ex, st))
    gu = ctx.graph(c, 'unregister_object', boolean=True)
    fu = P.method(c, 'unregister_object')[1]
    obu = fu.args.args[1].arg

    def uhook(an_, n, before, after):
        a = n.ast
        if n.kind == 'stmt' and isinstance(a, ast.Delete) and ast.unparse(a.targets[0]) == f'self._registered_objects[{obu}]':
            return after.with_flag('deleted')
        for cl in calls_at(an_.g, n):
            if call_attr(cl) == 'pop' and is_self_attr(cl.func.value, '_registered_objects'):
                return after.with_flag('deleted')
        return after
    an4 = Analysis(P, gu, [])
    an4.node_hooks.append(uhook)
    res = ctx.explore(an4, [State({})], follow_exc=True)
    for ex, truth in ((gu.exitT, True), (gu.exitF, False)):
        for st in res.at(ex):
            o.count()
            o.witness(('unregister', truth))
            if ('deleted' in st.flags) != truth:
                o.fail(P, 'ActionScheduler.unregister_object', f'del self._registered_objects[{obu}]', f'unregister_object returns {truth} but the object was {"" if "deleted" in st.flags else "not "}removed',
                       file=c.mod.path, line=fu.lineno, path=res.path_lines(ex, st))
    if not res.at(gu.exitT) or not res.at(gu.exitF):
        o.fail(P, 'ActionScheduler.unregister_object', 'return True / return False', 'unregister_object cannot report both outcomes', file=c.mod.path, line=fu.lineno)
    for s in inv.attr_uses(P, '_registered_objects'):
        role = s.extra['role']
        o.count()
        if role[0] in ('subscript-store', 'subscript-del') and not (s.cls is c and s.func.name in ('register_object', 'unregister_object')):
            o.fail(P, s.ctx, s.stmt, 'the registration dict is changed outside register/unregister', file=s.mod.path, line=s.line)
        if role[0] == 'store' and not (s.cls is c and s.func.name == '__init__'):
            o.fail(P, s.ctx, s.stmt, 'the registration dict is re-bound', file=s.mod.path, line=s.line)
        if role[0] == 'store' and s.cls is c and s.func.name == '__init__':
            # registration order and "registered until unregistered" are what a plain dict gives: it keeps insertion order and holds its keys
            v_ = s.stmt.value if isinstance(s.stmt, ast.Assign) else None
            plain = (isinstance(v_, ast.Dict) and not v_.keys) or (isinstance(v_, ast.Call) and isinstance(v_.func, ast.Name) and v_.func.id == 'dict' and not v_.args and not v_.keywords)
            if not plain:
                o.fail(P, s.ctx, s.stmt, f'the registered objects are kept in `{ast.unparse(v_) if v_ is not None else "?"}`, not in a plain dict: a container that does not hold its keys '
                       '(weak references), orders them differently or merges equal keys changes which objects are acted on, and in which order', file=s.mod.path, line=s.line)
            else:
                o.witness('plain-dict')

    # ---- C18.6 -----------------------------------------------------------------------------------------
    o = Ob('C18.6', 'K13', 'the documented default of is_cyclical equals the signature default')
    obs.append(o)
    o.count()
    doc, sig = doc_default(c.node, init, 'is_cyclical')
    if doc is None or sig is None:
        raise AnalysisError('is_cyclical: documented or signature default not found')
    if doc != sig:
        o.fail(P, 'ActionScheduler.__init__', f'is_cyclical = {sig}', f'the signature default of is_cyclical ({sig}) differs from the documented default ({doc}): schedules built without the argument behave differently from the documentation',
               file=c.mod.path, line=init.lineno)
    else:
        o.witness('default')
        o.sample({'param': 'is_cyclical', 'documented': doc, 'signature': sig})
    obs.append(ctx.shared('c01', 'C01.1', 'C18.7', 'every transition of a timetable is an event waiting in the queue while other devices pause and resume theirs: the queue must '
                          'keep one discipline (removing from a heap as if it were a sorted list lets a later transition overtake an earlier one)'))
    obs.append(ctx.shared('c20', 'C20.4', 'C18.8', 'a scheduler starts its timetable in initialize(): every asset is initialised exactly once, also one created while the others are '
                          'being initialised (a second initialisation starts a second, shifted copy of the timetable)'))
    obs.append(dv.falsy_default_obligation(ctx, 'C18.9', ['ActionScheduler'], 'durations and flags of a timetable are what was given'))
    return obs


CLAIM = {
    'technique': 'static analysis: typestate exploration of the transition step over (advance, cyclical, past-the-end) with step flags and order, '
                 'contextual normal forms of the state/delay expressions, per-iteration exploration of the action loop over the ghost "has an override", '
                 'who-may-call inventory for the actions, boolean-exit analysis of register/unregister, documented-default check',
    'level_text': 'One transition step follows the timetable (index, wrap/stop, state, delay, action order and arguments) on every path; the state at '
                  'an arbitrary time of a long run is not computed.',
    'level_note': 'dict insertion order is registration order.',
}
