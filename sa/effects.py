"""Field read/write effects of supergraph nodes and a forward must-definition dataflow
(used by the constructor / initialize ordering rule K11)."""
import ast

from .cfg import own_exprs, DEFERRED, Frame


def _self_attr(n):
    return isinstance(n, ast.Attribute) and isinstance(n.value, ast.Name) and n.value.id == 'self'


class Effects:
    def __init__(self, P):
        self.P = P

    def field_reads(self, expr, frame, seen=None):
        """`self.<field>` loads performed when evaluating expr in `frame`; trivial and non-trivial property
        getters are expanded, inlined method calls are not (they are separate supergraph nodes)."""
        out = []
        seen = seen if seen is not None else set()

        def visit(n):
            if isinstance(n, DEFERRED):
                return
            if _self_attr(n) and frame.kind != 'static' and frame.concrete is not None:
                if isinstance(n.ctx, ast.Load):
                    hit = self.P.lookup(frame.concrete, n.attr)
                    if hit is None:
                        out.append(n.attr)
                    elif hit[1] == 'prop':
                        g = self.P.lookup_prop(frame.concrete, n.attr, 'get')
                        if g and (g[0].qual, n.attr) not in seen:
                            seen.add((g[0].qual, n.attr))
                            sub = Frame(frame.concrete, g[0], g[1], parent=None)
                            for st in g[1].body:
                                out.extend(self.field_reads(st, sub, seen))
                return
            for ch in ast.iter_child_nodes(n):
                visit(ch)
        visit(expr)
        return out

    def node_reads(self, node):
        out = []
        for e in own_exprs(node):
            out += self.field_reads(e, node.frame)
        a = node.ast
        if node.kind == 'stmt' and isinstance(a, ast.AugAssign) and _self_attr(a.target):
            out.append(a.target.attr)
        return out

    def write_targets(self, node):
        """(field, kind, rhs) for stores performed by this node; kind 'store' (self.f = ...), 'aug' (self.f += ...),
        'del', 'item' (self.f[k] = ... / del self.f[k] / self.f[k] += ...)"""
        a = node.ast
        out = []
        if a is None or node.kind not in ('stmt', 'for'):
            return out
        if node.frame is None or node.frame.kind == 'static' or node.frame.concrete is None:
            return out
        items = []
        if isinstance(a, ast.Assign):
            items = [(t, 'store', a.value) for t in a.targets]
        elif isinstance(a, ast.AugAssign):
            items = [(a.target, 'aug', a.value)]
        elif isinstance(a, ast.AnnAssign) and a.value is not None:
            items = [(a.target, 'store', a.value)]
        elif isinstance(a, ast.For) and node.kind == 'for':
            items = [(a.target, 'store', None)]
        elif isinstance(a, ast.Delete):
            items = [(t, 'del', None) for t in a.targets]

        def tv(t, kind, rhs):
            if isinstance(t, (ast.Tuple, ast.List)):
                for e in t.elts:
                    tv(e, kind, None)
            elif isinstance(t, ast.Starred):
                tv(t.value, kind, None)
            elif _self_attr(t):
                if not self.P.lookup_prop(node.frame.concrete, t.attr, 'set'):
                    out.append((t.attr, kind, rhs))
            elif isinstance(t, ast.Subscript) and _self_attr(t.value):
                out.append((t.value.attr, 'item', rhs))
        for t, kind, rhs in items:
            tv(t, kind, rhs)
        return out

    def field_writes(self, node):
        """fields (re)bound by this node: plain and augmented stores"""
        return [f for f, kind, _ in self.write_targets(node) if kind in ('store', 'aug')]


def must_defs(g, eff, start_defs=frozenset(), follow_exc=False):
    """forward must-analysis: IN[n] = fields definitely written on every path from the entry to n
    (None = n not reached)"""
    IN = {n: None for n in g.nodes}
    IN[g.entry] = frozenset(start_defs)
    work = [g.entry]
    while work:
        n = work.pop()
        out = IN[n] | frozenset(eff.field_writes(g.nodes[n]))
        for (label, m) in g.succ[n]:
            if label == 'exc' and not follow_exc:
                continue
            new = out if IN[m] is None else (IN[m] & out)
            if new != IN[m]:
                IN[m] = new
                work.append(m)
    return IN


def reaching_writes(g, eff, fields, follow_exc=False):
    """forward may-analysis: for each node, field -> set of node ids whose store of that field may reach it"""
    IN = {n: None for n in g.nodes}
    IN[g.entry] = {}
    work = [g.entry]
    while work:
        n = work.pop()
        cur = dict(IN[n])
        for f in eff.field_writes(g.nodes[n]):
            if f in fields:
                cur[f] = frozenset([n])
        for (label, m) in g.succ[n]:
            if label == 'exc' and not follow_exc:
                continue
            if IN[m] is None:
                new = dict(cur)
            else:
                new = dict(IN[m])
                for f, s in cur.items():
                    new[f] = new.get(f, frozenset()) | s
                # a path on which f was never written: keep what is there (absence is not tracked)
            if new != IN[m]:
                IN[m] = new
                work.append(m)
    return IN
