"""Symbolic locals for the path-sensitive explorer (L12).

The normaliser (sa/norm.py) reads an expression "timelessly": a local is replaced by its single definition.  That is enough for
`now = self._env.now`, but not for a local that is defined on two branches and used after the join

    if name in self._resources:  in_use, cap = self._resources[name];  new_cap = cap + amount
    else:                        in_use = 0.0;                        new_cap = amount
    self._resources[name] = (in_use, new_cap)

nor for a boolean local that is tested later (`goes_below_zero = amount < 0 and cap + amount < 0 ... if goes_below_zero: raise`).
This module gives the explorer (sa/state.py) a symbolic store: on every explored path each local holds a linear normal form (`Lin`) over
the atoms of the entry state, or a boolean formula over comparisons of such forms; the conditions passed on the path are recorded as
formulas (flags), so that a rule can ask, at a node and for each path reaching it: what is the value of this expression, and what is known?
No solver is involved: values are linear normal forms, knowledge is a conjunction of formulas that is expanded to disjunctive normal form
when a rule needs a case analysis.
"""
import ast
import itertools
from fractions import Fraction

from .norm import Lin, FrameEnv, Normalizer, OPS, NEG
from .cfg import is_self_attr


class Sym:
    def __init__(self, P, cls, g):
        self.P, self.cls, self.g = P, cls, g
        self.N = Normalizer(P, cls)
        self.vals = {}          # token -> Lin | formula
        self._n = 0

    # ---- tokens ----------------------------------------------------------------------------------------------------------------
    def tok(self, kind, v):
        key = (kind, v.key() if isinstance(v, Lin) else tuple(x.key() for x in v) if kind == 'P' else repr(v))
        for t, (k2, v2) in self.vals.items():
            if k2 == key:
                return t
        self._n += 1
        t = f'{kind}#{self._n}'
        self.vals[t] = (key, v)
        return t

    def lin_of(self, token):
        if isinstance(token, str) and token.startswith('L#') and token in self.vals:
            return self.vals[token][1]
        return None

    def pair_of(self, token):
        if isinstance(token, str) and token.startswith('P#') and token in self.vals:
            return self.vals[token][1]
        return None

    def formula_of(self, token):
        if isinstance(token, str) and token.startswith('B#') and token in self.vals:
            return self.vals[token][1]
        return None

    # ---- expressions -----------------------------------------------------------------------------------------------------------
    def lin(self, e, st, frame, depth=0):
        """Lin of a numeric expression under the symbolic store of `st`, or None"""
        if depth > 14:
            return None
        r = lambda x: self.lin(x, st, frame, depth + 1)
        if isinstance(e, ast.Constant):
            if isinstance(e.value, (int, float)) and not isinstance(e.value, bool):
                return Lin(const=Fraction(e.value).limit_denominator(10**9))
            return None
        if isinstance(e, ast.Name):
            v = st.locals.get((frame.id, e.id))
            l = self.lin_of(v)
            if l is not None:
                return l
            if v is None:
                # not assigned on this path (a parameter of the entry point): an atom named after it.  (A parameter of an inlined frame
                # was evaluated in the caller when the frame was entered, so it is never absent.)
                return Lin({e.id: 1})
            return None
        if isinstance(e, ast.UnaryOp) and isinstance(e.op, ast.USub):
            x = r(e.operand)
            return x.scale(-1) if x is not None else None
        if isinstance(e, ast.BinOp):
            a, b = r(e.left), r(e.right)
            if a is None or b is None:
                return None
            if isinstance(e.op, ast.Add):
                return a + b
            if isinstance(e.op, ast.Sub):
                return a + b.scale(-1)
            if isinstance(e.op, ast.Mult):
                if a.is_const():
                    return b.scale(a.const)
                if b.is_const():
                    return a.scale(b.const)
            return None
        if isinstance(e, ast.Attribute):
            n0 = self.N.norm(e, FrameEnv(frame))
            return n0
        if isinstance(e, ast.Subscript) and isinstance(e.value, ast.Name) and isinstance(e.slice, ast.Constant) and e.slice.value in (0, 1):
            pr = self.pair_of(st.locals.get((frame.id, e.value.id)))
            if pr is not None:
                return pr[e.slice.value]
        if isinstance(e, ast.Subscript):
            # atom: canonical base text + canonical index text (index names substituted by what they hold symbolically)
            base = self.atom_text(e.value, st, frame, depth + 1)
            idx = self.atom_text(e.slice, st, frame, depth + 1)
            if base is None or idx is None:
                return None
            return Lin({f'{base}[{idx}]': 1})
        if isinstance(e, ast.Call) and isinstance(e.func, ast.Name) and e.func.id in ('max', 'min') and len(e.args) == 2 and not e.keywords:
            a, b = r(e.args[0]), r(e.args[1])
            if a is None or b is None:
                return None
            return Lin({f'{e.func.id}({", ".join(sorted([a.key(), b.key()]))})': 1})
        if isinstance(e, ast.Call) and isinstance(e.func, ast.Name) and e.func.id in ('float', 'int') and len(e.args) == 1:
            return r(e.args[0])
        if isinstance(e, ast.IfExp):
            f = self.formula(e.test, st, frame, depth + 1)
            if f is not None:
                t = self.truth(f, st)
                if t is True:
                    return r(e.body)
                if t is False:
                    return r(e.orelse)
            return None
        return None

    def atom_text(self, e, st, frame, depth=0):
        if isinstance(e, ast.Constant):
            return repr(e.value)
        if isinstance(e, ast.Name):
            l = self.lin(e, st, frame, depth)
            return l.key() if l is not None else e.id
        if isinstance(e, ast.Attribute):
            if is_self_attr(e):
                return 'self.' + e.attr
            b = self.atom_text(e.value, st, frame, depth + 1)
            return f'{b}.{e.attr}' if b is not None else None
        if isinstance(e, ast.Subscript):
            b, i = self.atom_text(e.value, st, frame, depth + 1), self.atom_text(e.slice, st, frame, depth + 1)
            return f'{b}[{i}]' if b is not None and i is not None else None
        l = self.lin(e, st, frame, depth)
        return l.key() if l is not None else None

    def formula(self, t, st, frame, depth=0):
        """boolean formula of a test under the symbolic store: ('lit', Lin, op) | ('and'|'or', [..]) | ('not', f) | ('atom', text) | ('const', bool)"""
        if depth > 14:
            return None
        if isinstance(t, ast.Constant) and isinstance(t.value, bool):
            return ('const', t.value)
        if isinstance(t, ast.UnaryOp) and isinstance(t.op, ast.Not):
            f = self.formula(t.operand, st, frame, depth + 1)
            return ('not', f) if f is not None else None
        if isinstance(t, ast.BoolOp):
            fs = [self.formula(v, st, frame, depth + 1) for v in t.values]
            if any(f is None for f in fs):
                return None
            return ('and' if isinstance(t.op, ast.And) else 'or', fs)
        if isinstance(t, ast.Name):
            v = st.locals.get((frame.id, t.id))
            f = self.formula_of(v)
            if f is not None:
                return f
            if v == 'T':
                return ('const', True)
            if v == 'F':
                return ('const', False)
            return ('atom', f'{frame.id}:{t.id}')
        if isinstance(t, ast.Compare) and len(t.ops) == 1:
            op = OPS.get(type(t.ops[0]))
            l, r = t.left, t.comparators[0]
            if isinstance(t.ops[0], (ast.In, ast.NotIn)):
                a, b = self.atom_text(l, st, frame, depth + 1), self.atom_text(r, st, frame, depth + 1)
                if a is None or b is None:
                    return None
                f = ('atom', f'{a} in {b}')
                return f if isinstance(t.ops[0], ast.In) else ('not', f)
            if op is None:
                return None
            # comparisons with None: an atom about the subject
            for x, y in ((l, r), (r, l)):
                if isinstance(y, ast.Constant) and y.value is None:
                    if isinstance(x, ast.Name):
                        v = st.locals.get((frame.id, x.id))
                        if v == 'N':                                  # the local holds the constant None on this path
                            return ('const', op == '==')
                        if self.lin_of(v) is not None or self.pair_of(v) is not None:
                            return ('const', op != '==')              # it holds a number / a tuple
                    a = self.atom_text(x, st, frame, depth + 1)
                    if a is None:
                        return None
                    f = ('atom', f'{a} is None')
                    return f if op == '==' else ('not', f)
            a, b = self.lin(l, st, frame, depth + 1), self.lin(r, st, frame, depth + 1)
            if a is None or b is None:
                return None
            d = a + b.scale(-1)
            return norm_lit(d, op)
        return None

    def truth(self, f, st):
        """True / False if formula f is decided by the formulas known on the path, else None (syntactic match only)"""
        if f[0] == 'const':
            return f[1]
        for fl in st.flags:
            if fl.startswith('fm|'):
                _, tok, truth = fl.split('|')[:3]
                g = self.formula_of(tok)
                if g is not None:
                    if g == f:
                        return truth == 'T'
                    if g == ('not', f) or f == ('not', g):
                        return truth != 'T'
        return None

    # ---- hooks for sa/state.Analysis -----------------------------------------------------------------------------------------
    def install(self, an):
        an.expr_hooks.append(self.expr_hook)
        an.refine_hooks.append(self.refine_hook)
        an.node_hooks.append(self.forget_hook)

    def expr_hook(self, an, e, st, frame):
        if isinstance(e, ast.Tuple) and len(e.elts) == 2:
            a, b = self.lin(e.elts[0], st, frame), self.lin(e.elts[1], st, frame)
            if a is not None and b is not None:
                return self.tok('P', (a, b))
            return NotImplemented
        if isinstance(e, (ast.Compare, ast.BoolOp)) or (isinstance(e, ast.UnaryOp) and isinstance(e.op, ast.Not)):
            f = self.formula(e, st, frame)
            return self.tok('B', f) if f is not None else NotImplemented
        if isinstance(e, (ast.BinOp, ast.Constant, ast.Subscript, ast.IfExp)) or (isinstance(e, ast.UnaryOp) and isinstance(e.op, ast.USub)) or \
                (isinstance(e, ast.Call) and isinstance(e.func, ast.Name) and e.func.id in ('max', 'min', 'float', 'int')):
            if isinstance(e, ast.Constant) and not (isinstance(e.value, (int, float)) and not isinstance(e.value, bool)):
                return NotImplemented
            l = self.lin(e, st, frame)
            return self.tok('L', l) if l is not None else NotImplemented
        if isinstance(e, ast.Attribute) and not (is_self_attr(e) and e.attr in an.tracked):
            l = self.lin(e, st, frame)
            return self.tok('L', l) if l is not None else NotImplemented
        if isinstance(e, ast.Name):
            v = st.locals.get((frame.id, e.id))
            if v is None and (frame.parent is None or e.id not in frame.argmap):
                return self.tok('L', Lin({e.id: 1}))
        return NotImplemented

    def refine_hook(self, an, test, truth, st, frame):
        f = self.formula(test, st, frame)
        if f is None:
            return NotImplemented
        if f[0] == 'const':
            return st if f[1] == truth else None
        known = self.truth(f, st)
        if known is not None:
            return st if known == truth else None
        nid = getattr(self, '_cur_node', 0)
        return st.with_flag(f'fm|{self.tok("B", f)}|{"T" if truth else "F"}|{nid}')

    def forget_hook(self, an, n, before, after):
        self._cur_node = n.id
        if n.kind == 'for' and n.ast is not None:
            # the loop variables of this iteration are fresh atoms named after them; what was learnt about the previous iteration's
            # values (formulas recorded inside this loop) is forgotten
            st = after.copy()
            for x in ast.walk(n.ast.target):
                if isinstance(x, ast.Name):
                    st.locals[(n.frame.id, x.id)] = self.tok('L', Lin({x.id: 1}))
            lo, hi = n.ast.lineno, getattr(n.ast, 'end_lineno', n.ast.lineno)
            keep = frozenset(f for f in st.flags if not (f.startswith('fm|') and self._in_loop(f, n, lo, hi)))
            st.flags = keep
            return st
        return after

    def _in_loop(self, flag, head, lo, hi):
        try:
            nid = int(flag.split('|')[3])
        except (IndexError, ValueError):
            return False
        m = self.g.nodes.get(nid)
        if m is None:
            return False
        fr, line = m.frame, m.line or 0
        while fr is not head.frame and fr is not None and fr.parent is not None:
            line = getattr(fr.call, 'lineno', 0) or 0
            fr = fr.parent
        return fr is head.frame and lo <= line <= hi

    def pair(self, e, st, frame):
        """(Lin, Lin) of an expression that denotes a 2-tuple (a display, or a local that holds one)"""
        if isinstance(e, ast.Tuple) and len(e.elts) == 2:
            a, b = self.lin(e.elts[0], st, frame), self.lin(e.elts[1], st, frame)
            return (a, b) if a is not None and b is not None else None
        if isinstance(e, ast.Name):
            return self.pair_of(st.locals.get((frame.id, e.id)))
        return None

    # ---- queries -------------------------------------------------------------------------------------------------------------------
    def known(self, st):
        """the formulas known on the path as a DNF: list of alternatives, each a list of literals (Lin, op) / atoms (text, bool)"""
        fs = []
        for fl in sorted(st.flags):
            if fl.startswith('fm|'):
                _, tok, truth = fl.split('|')[:3]
                f = self.formula_of(tok)
                if f is not None:
                    fs.append(f if truth == 'T' else ('not', f))
        return dnf(('and', fs)) if fs else [[]]


def norm_lit(d, op):
    """literal  d op 0  in canonical form: ops '<', '<=', '==', '!='"""
    if op in ('>', '>='):
        d = d.scale(-1)
        op = '<' if op == '>' else '<='
    if op in ('==', '!='):
        ks = sorted(d.terms)
        if (ks and d.terms[ks[0]] < 0) or (not ks and d.const < 0):
            d = d.scale(-1)
    return ('lit', d.key(), op, d)


def neg_lit(l):
    _, key, op, d = l
    return norm_lit(d, NEG[op])


def dnf(f, positive=True, limit=64):
    """disjunctive normal form of a formula: list of conjunctions (lists of ('lit', key, op, Lin) / ('atom', text, bool))"""
    k = f[0]
    if k == 'const':
        return [[]] if f[1] == positive else []
    if k == 'lit':
        return [[f if positive else neg_lit(f)]]
    if k == 'atom':
        return [[('atom', f[1], positive)]]
    if k == 'not':
        return dnf(f[1], not positive, limit)
    if (k == 'and') == positive:      # conjunction
        out = [[]]
        for g in f[1]:
            alts = dnf(g, positive, limit)
            out = [a + b for a in out for b in alts]
            if len(out) > limit:
                out = out[:limit]
        return out
    out = []
    for g in f[1]:
        out += dnf(g, positive, limit)
    return out[:limit]


def literals(conj):
    """(Lin, op) pairs of a conjunction"""
    return [(l[3], l[2]) for l in conj if l[0] == 'lit']
