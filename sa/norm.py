"""L4 -- linear normal form of arithmetic expressions with class-sensitive accessor inlining.
"""
import ast
from fractions import Fraction



class Lin:
    """sum(coef * atom) + const ; atoms are canonical strings"""
    def __init__(self, terms=None, const=0):
        self.terms = {k: v for k, v in (terms or {}).items() if v != 0}
        self.const = Fraction(const)

    def __add__(self, o):
        t = dict(self.terms)
        for k, v in o.terms.items():
            t[k] = t.get(k, 0) + v
        return Lin(t, self.const + o.const)

    def scale(self, c):
        return Lin({k: v * c for k, v in self.terms.items()}, self.const * c)

    def is_const(self):
        return not self.terms

    def key(self):
        items = sorted(self.terms.items())
        out = ''
        for i, (k, c) in enumerate(items):
            mag = '' if abs(c) == 1 else f'{abs(c)}*'
            if i == 0:
                out += ('-' if c < 0 else '') + mag + k
            else:
                out += (' - ' if c < 0 else ' + ') + mag + k
        if self.const != 0 or not items:
            c = self.const
            if not items:
                out = str(c)
            else:
                out += (' - ' if c < 0 else ' + ') + str(abs(c))
        return out

    def is_(self, terms, const=0):
        """structural equality with {atom: coef}"""
        return self.terms == {k: Fraction(v) for k, v in terms.items() if v != 0} and self.const == Fraction(const)

    __repr__ = key


class FrameEnv:
    """name resolution along the chain of inlined frames of a supergraph: a parameter resolves to the
    argument expression in the caller's frame (or to its default), a local with a single definition to
    that definition."""

    def __init__(self, frame, extra=None):
        self.frame = frame
        self.extra = extra or {}
        self._defs = None

    def resolve(self, name):
        if name in self.extra:
            return self.extra[name]
        fr = self.frame
        if fr is None:
            return None
        if name in fr.argmap:
            expr, efr = fr.argmap[name]
            return expr, FrameEnv(efr if efr is not None else None)
        if self._defs is None:
            # the definitions as the graph builder saw them (logic moved onto records read back in place, starred tuples expanded ...)
            self._defs = single_defs(getattr(fr, 'norm_func', None) or fr.func)
        if name in self._defs:
            return self._defs[name], self
        return None

    def items(self):
        return []

    def __contains__(self, k):
        return self.resolve(k) is not None


class Normalizer:
    def __init__(self, P, cls):
        self.P, self.cls = P, cls

    def _defs_of(self, fn):
        c = getattr(self, '_defs_cache', None)
        if c is None:
            c = self._defs_cache = {}
        if id(fn) not in c:
            c[id(fn)] = (fn, single_defs(fn))        # the node is kept alive with its entry, so its address cannot be re-used
        return c[id(fn)][1]

    def accessor(self, name, call):
        """inline trivial accessors of self: property getters / zero-arg methods with a single return"""
        hit = self.P.lookup(self.cls, name)
        if not hit:
            return None
        fn = None
        if hit[1] == 'prop' and not call:
            g = self.P.lookup_prop(self.cls, name, 'get')
            fn = g[1] if g else None
        elif hit[1] == 'method' and call:
            fn = hit[2]
        if fn is None:
            return None
        return simple_return(fn)

    def norm(self, e, env=None, depth=0):
        if env is None:
            # no environment given: locals with a single definition in the enclosing function (`now = self.env.now`,
            # `env = self._env`) are substituted, so that hoisting a sub-expression into a local does not change a normal form
            fn = self.P.enclosing_function(e) if depth == 0 else None
            env = self._defs_of(fn) if fn is not None else {}
        if depth > 12:
            return Lin({ast.unparse(e): 1})
        n = lambda x: self.norm(x, env, depth + 1)
        if isinstance(e, ast.Constant) and isinstance(e.value, (int, float)) and not isinstance(e.value, bool):
            return Lin(const=Fraction(e.value).limit_denominator(10**9))
        if isinstance(e, ast.Name):
            if isinstance(env, FrameEnv):
                r = env.resolve(e.id)
                if r is not None:
                    return self.norm(r[0], r[1], depth + 1)
                return Lin({e.id: 1})
            if e.id in env:
                return self.norm(env[e.id], {k: v for k, v in env.items() if k != e.id}, depth + 1)
            return Lin({e.id: 1})
        if isinstance(e, ast.UnaryOp) and isinstance(e.op, ast.USub):
            return n(e.operand).scale(-1)
        if isinstance(e, ast.BinOp):
            if isinstance(e.op, ast.Add):
                return n(e.left) + n(e.right)
            if isinstance(e.op, ast.Sub):
                return n(e.left) + n(e.right).scale(-1)
            if isinstance(e.op, ast.Mult):
                l, r = n(e.left), n(e.right)
                if l.is_const():
                    return r.scale(l.const)
                if r.is_const():
                    return l.scale(r.const)
        if isinstance(e, ast.IfExp) and isinstance(e.test, ast.Compare) and len(e.test.ops) == 1:
            # `a if a > b else b`  is max(a, b);  `a if a < b else b`  is min(a, b)  (and the mirrored spellings)
            l, r, op = e.test.left, e.test.comparators[0], e.test.ops[0]
            kl, kr, kb, ko = n(l).key(), n(r).key(), n(e.body).key(), n(e.orelse).key()
            kind = None
            if {kb, ko} == {kl, kr} and kl != kr:
                greater_wins = (isinstance(op, (ast.Gt, ast.GtE)) and kb == kl) or (isinstance(op, (ast.Lt, ast.LtE)) and kb == kr)
                smaller_wins = (isinstance(op, (ast.Lt, ast.LtE)) and kb == kl) or (isinstance(op, (ast.Gt, ast.GtE)) and kb == kr)
                kind = 'max' if greater_wins else 'min' if smaller_wins else None
            if kind:
                return Lin({f'{kind}({", ".join(sorted([kl, kr]))})': 1})
        if isinstance(e, ast.Attribute):
            e = self._rebase(e, env)
            s = ast.unparse(e)
            if s in ('self._env.now', 'self.env.now', 'self.now', 'self._now'):
                return Lin({'NOW': 1})
            if isinstance(e.value, ast.Name) and e.value.id == 'self':
                a = self.accessor(e.attr, call=False)
                if a is not None:
                    return self.norm(a, {}, depth + 1)
                return Lin({'self.' + e.attr: 1})
            return Lin({self.atom(e, env, depth): 1})
        if isinstance(e, ast.Call):
            f = e.func
            if isinstance(f, ast.Attribute) and isinstance(f.value, ast.Name) and f.value.id == 'self' and not e.keywords:
                hit = self.P.lookup(self.cls, f.attr)
                if hit and hit[1] == 'method':
                    fn = hit[2]
                    ret = simple_return(fn)
                    params = [a.arg for a in fn.args.args][1:]
                    if ret is not None and len(params) == len(e.args):
                        # substitute arguments (already normalised in the caller env) into the body
                        if isinstance(env, FrameEnv):
                            inner = FrameEnv(None, {p: (a, env) for p, a in zip(params, e.args)})
                        else:
                            sub = {p: a for p, a in zip(params, e.args)}
                            inner = {**{k: v for k, v in env.items()}, **sub}
                        return self.norm(ret, inner, depth + 1)
            return Lin({self.atom(e, env, depth): 1})
        return Lin({self.atom(e, env, depth): 1})

    def _rebase(self, e, env):
        """`loc.attr...` where the local `loc` is an alias of a context-free `self.<chain>` expression (e.g. `env = self._env`)
        is rewritten to `self.<chain>.attr...`"""
        chain = []
        b = e
        while isinstance(b, ast.Attribute):
            chain.append(b.attr)
            b = b.value
        if not (isinstance(b, ast.Name) and b.id != 'self'):
            return e
        r = None
        if isinstance(env, FrameEnv):
            hit = env.resolve(b.id)
            r = hit[0] if hit is not None else None
        elif env and b.id in env:
            r = env[b.id]
        if r is None:
            return e
        t = r
        while isinstance(t, ast.Attribute):
            t = t.value
        if not (isinstance(t, ast.Name) and t.id == 'self' and isinstance(r, ast.Attribute)):
            return e
        out = r
        for a in reversed(chain):
            out = ast.Attribute(value=out, attr=a, ctx=ast.Load())
        return out

    def atom(self, e, env, depth):
        if isinstance(e, ast.Call):
            fn = ast.unparse(e.func)
            args = [self.norm(a, env, depth + 1).key() for a in e.args]
            if fn in ('max', 'min'):
                args = sorted(args)
            return f'{fn}({", ".join(args)})'
        if isinstance(e, ast.Subscript):
            base = e.value
            bs = self.atom(base, env, depth)        # a local alias of a container (`held = self._holdings`) is resolved
            return f'{bs}[{ast.unparse(e.slice)}]'
        if isinstance(e, ast.Attribute):
            if isinstance(e.value, ast.Name) and e.value.id == 'self':
                return 'self.' + e.attr
            return f'{self.atom(e.value, env, depth)}.{e.attr}'
        if isinstance(e, ast.Name):
            if isinstance(env, FrameEnv):
                r = env.resolve(e.id)
                return self.norm(r[0], r[1], depth + 1).key() if r is not None else e.id
            if e.id in env:
                return self.norm(env[e.id], {}, depth + 1).key()
            return e.id
        return ast.unparse(e)




def _pure_builtin_call(x):
    return isinstance(x.func, ast.Name) and x.func.id in ('max', 'min', 'len', 'abs', 'int', 'float', 'bool', 'round', 'sum', 'tuple') and not x.keywords


def simple_return(fn):
    """the value a straight-line function returns -- zero or more `local = expr` definitions (each local defined once, no other
    statement kind) followed by `return expr` -- with the locals substituted; None for anything else"""
    body = [s for s in fn.body if not (isinstance(s, ast.Expr) and isinstance(s.value, ast.Constant))]
    if not body or not isinstance(body[-1], ast.Return) or body[-1].value is None:
        return None
    if len(body) == 1:
        return body[0].value
    defs = {}
    params = {a.arg for a in fn.args.args}
    for st in body[:-1]:
        if isinstance(st, ast.Assign) and len(st.targets) == 1 and isinstance(st.targets[0], ast.Attribute) \
                and not any(isinstance(x, ast.Call) for x in ast.walk(st.value)):
            continue        # a field store next to the computation (`self._offset = 0`): the returned formula is unaffected
        if not (isinstance(st, ast.Assign) and len(st.targets) == 1 and isinstance(st.targets[0], ast.Name)):
            return None
        nm = st.targets[0].id
        if nm in defs or nm in params or any(isinstance(x, ast.Call) and not _pure_builtin_call(x) for x in ast.walk(st.value)):
            return None         # calls may have effects / must not be duplicated (max / min / len / abs ... of call-free arguments are values)
        defs[nm] = subst(st.value, defs)
    return subst(body[-1].value, defs)


# ---------------------------------------------------------------------------
# comparisons, local definitions
# ---------------------------------------------------------------------------

def fn_memo(fn, key, compute):
    """memo attached to the FunctionDef node itself (never keyed by id()); a shallow copy of the node shares __dict__ entries but not
    necessarily the body, so the body object is part of the validity test"""
    m = fn.__dict__.get('_sa_memo')
    if m is None or m[0] is not fn.body:
        m = (fn.body, {})
        fn.__dict__['_sa_memo'] = m
    if key not in m[1]:
        m[1][key] = compute()
    return m[1][key]


def single_defs(fn):
    """locals of `fn` with exactly one plain definition -> defining expression.
    Tuple unpacking `a, b = X` yields a -> X[0], b -> X[1].  Loop targets and augmented
    assignments disqualify a name."""
    return dict(fn_memo(fn, 'single_defs', lambda: _single_defs(fn)))


def _single_defs(fn):
    defs, bad = {}, set()

    def add(name, expr):
        # a second definition by the very same expression (`head, _ = self._q[0]` in the loop and again after it) is the same definition
        if name in defs and ast.dump(defs[name]) != ast.dump(expr):
            bad.add(name)
        defs[name] = expr

    for n in ast.walk(fn):
        if isinstance(n, ast.Assign):
            for t in n.targets:
                if isinstance(t, ast.Name):
                    add(t.id, n.value)
                elif isinstance(t, (ast.Tuple, ast.List)):
                    pairwise = isinstance(n.value, (ast.Tuple, ast.List)) and len(n.value.elts) == len(t.elts) \
                        and not any(isinstance(x, ast.Starred) for x in list(t.elts) + list(n.value.elts))
                    for i, el in enumerate(t.elts):
                        if isinstance(el, ast.Name):
                            # `a, b = x, y` defines a as x and b as y; `a, b = pair` defines them as pair[0], pair[1]
                            add(el.id, n.value.elts[i] if pairwise else ast.Subscript(value=n.value, slice=ast.Constant(i), ctx=ast.Load()))
        elif isinstance(n, (ast.AugAssign, ast.AnnAssign)):
            if isinstance(n.target, ast.Name):
                bad.add(n.target.id)
        elif isinstance(n, (ast.For, ast.comprehension)):
            for el in ast.walk(n.target):
                if isinstance(el, ast.Name):
                    bad.add(el.id)
        elif isinstance(n, ast.NamedExpr):
            bad.add(n.target.id)
        elif isinstance(n, ast.withitem) and n.optional_vars is not None:
            for el in ast.walk(n.optional_vars):
                if isinstance(el, ast.Name):
                    bad.add(el.id)
    for a in fn.args.args + fn.args.kwonlyargs:
        bad.add(a.arg) if a.arg in defs else None
    out = {k: v for k, v in defs.items() if k not in bad}
    out.update(_clamp_defs(fn, bad, out))
    return out


def _clamp_defs(fn, twice, singles):
    """the explicit spelling of a clamp --  `v = E1` followed, in the same block, by `if v < E2: v = E2` (or `if E2 > v`, `<=`, and the
    mirror images for an upper bound) with no other definition of v -- defines v as max(E1, E2) (min for the upper bound)"""
    out = {}
    for blk_owner in ast.walk(fn):
        for field in ('body', 'orelse', 'finalbody'):
            blk = getattr(blk_owner, field, None)
            if not isinstance(blk, list):
                continue
            for i, st in enumerate(blk[:-1]):
                if not (isinstance(st, ast.Assign) and len(st.targets) == 1 and isinstance(st.targets[0], ast.Name)):
                    continue
                v = st.targets[0].id
                nxt = blk[i + 1]
                test_ = nxt.test if isinstance(nxt, ast.If) else None
                negated = isinstance(test_, ast.UnaryOp) and isinstance(test_.op, ast.Not)          # `if not v > b: v = b`
                if negated:
                    test_ = test_.operand
                if not (isinstance(nxt, ast.If) and not nxt.orelse and len(nxt.body) == 1 and isinstance(nxt.body[0], ast.Assign)
                        and len(nxt.body[0].targets) == 1 and isinstance(nxt.body[0].targets[0], ast.Name) and nxt.body[0].targets[0].id == v
                        and isinstance(test_, ast.Compare) and len(test_.ops) == 1):
                    continue
                ndefs = sum(1 for x in ast.walk(fn) if isinstance(x, ast.Name) and x.id == v and isinstance(x.ctx, ast.Store))
                if ndefs != 2 or v not in twice:
                    continue
                e2 = nxt.body[0].value
                l, r, op = test_.left, test_.comparators[0], test_.ops[0]
                if negated:
                    op = {ast.Lt: ast.GtE, ast.LtE: ast.Gt, ast.Gt: ast.LtE, ast.GtE: ast.Lt}.get(type(op), type(None))()
                t2 = ast.unparse(e2)
                kind = None
                if isinstance(l, ast.Name) and l.id == v and ast.unparse(r) == t2:
                    kind = 'max' if isinstance(op, (ast.Lt, ast.LtE)) else 'min' if isinstance(op, (ast.Gt, ast.GtE)) else None
                elif isinstance(r, ast.Name) and r.id == v and ast.unparse(l) == t2:
                    kind = 'max' if isinstance(op, (ast.Gt, ast.GtE)) else 'min' if isinstance(op, (ast.Lt, ast.LtE)) else None
                if kind and not any(isinstance(x, ast.Name) and x.id == v for x in ast.walk(st.value)):
                    out[v] = ast.copy_location(ast.Call(func=ast.Name(kind, ast.Load()), args=[st.value, e2], keywords=[]), st)
                    ast.fix_missing_locations(out[v])
    return out


OPS = {ast.Lt: '<', ast.LtE: '<=', ast.Gt: '>', ast.GtE: '>=', ast.Eq: '==', ast.NotEq: '!=',
       ast.Is: '==', ast.IsNot: '!='}
NEG = {'<': '>=', '<=': '>', '>': '<=', '>=': '<', '==': '!=', '!=': '=='}


def cmp_norm(N, test, env=None, truth=True, _depth=0, names=False):
    """normalise `a OP b` (taken with the given truth value) to (Lin, op) meaning  Lin op 0
    with op in {'<', '<=', '==', '!='}; None when `test` is not a single comparison."""
    if isinstance(test, ast.UnaryOp) and isinstance(test.op, ast.Not):
        return cmp_norm(N, test.operand, env, not truth, _depth, names)
    if isinstance(test, ast.Name) and env is not None and _depth < 4 and names:
        # a boolean local defined once by a comparison (`has_room = level + n <= capacity`) is that comparison
        d = None
        if isinstance(env, FrameEnv):
            r = env.resolve(test.id)
            if r is not None:
                d, env2 = r
        elif test.id in env:
            d, env2 = env[test.id], {k: v for k, v in env.items() if k != test.id}
        if d is not None and (isinstance(d, (ast.Compare, ast.Name)) or (isinstance(d, ast.UnaryOp) and isinstance(d.op, ast.Not))):
            return cmp_norm(N, d, env2, truth, _depth + 1, names=True)
        return None
    if not (isinstance(test, ast.Compare) and len(test.ops) == 1):
        return None
    op = OPS.get(type(test.ops[0]))
    if op is None:
        return None
    if not truth:
        op = NEG[op]
    l = N.norm(test.left, env)
    r = N.norm(test.comparators[0], env)
    d = l + r.scale(-1)
    if op in ('>', '>='):
        d = d.scale(-1)
        op = '<' if op == '>' else '<='
    if op in ('==', '!='):
        # canonical sign: first term positive
        ks = sorted(d.terms)
        if ks and d.terms[ks[0]] < 0:
            d = d.scale(-1)
        elif not ks and d.const < 0:
            d = d.scale(-1)
    return d, op


def cmp_key(N, test, env=None, truth=True):
    r = cmp_norm(N, test, env, truth)
    if r is None:
        return None
    return f'{r[0].key()} {r[1]} 0'


def cmp_polarity(N, test, env, terms, op, const=0):
    """+1 if `test` is equivalent to  sum(terms) + const  op  0 ; -1 if it is equivalent to its negation; None otherwise.
    op in {'<', '<=', '==', '!='}"""
    for truth, pol in ((True, 1), (False, -1)):
        r = cmp_norm(N, test, env, truth)
        if r is None:
            return None
        lin, o = r
        if o == op and lin.is_(terms, const):
            return pol
        if op in ('==', '!=') and o == op and lin.scale(-1).is_(terms, const):
            return pol
    return None


def subst(e, env, depth=0, keep=()):
    """copy of expression `e` in which every local name with a single definition and every parameter of an inlined frame is replaced,
    recursively, by its defining / argument expression (env: FrameEnv or dict).  Names in `keep` are left alone.  The result is a
    canonical spelling of "where the value comes from" in terms of the entry point's own parameters, loop variables and self."""
    import copy as _copy
    if depth > 8:
        return e

    def res(name):
        if name in keep or name == 'self':
            return None
        if isinstance(env, FrameEnv):
            return env.resolve(name)
        if env and name in env:
            return env[name], {k: v for k, v in env.items() if k != name}
        return None

    class T(ast.NodeTransformer):
        def visit_Name(self, n):
            if isinstance(n.ctx, ast.Load):
                r = res(n.id)
                if r is not None:
                    return subst(r[0], r[1], depth + 1, keep)
            return n

        def visit_Lambda(self, n):
            return n
    return T().visit(_copy.deepcopy(e))


def ctext(e, env, keep=()):
    """canonical text of an expression (see subst)"""
    return ast.unparse(subst(e, env, keep=keep)).replace(' ', '')


def _put_self(e, recv):
    import copy as _copy

    class S(ast.NodeTransformer):
        def visit_Name(self, x):
            return ast.copy_location(_copy.deepcopy(recv), x) if x.id == 'self' else x
    return S().visit(_copy.deepcopy(e))


def inline_accessors(P, cls, e, depth=0):
    """copy of expression e in which a call `self.m(args)` / `<Class of the MRO>.m(args)` of a method (plain or static) whose body is a
    straight-line computation (simple_return) is replaced by the value it returns, with call-free arguments put in for the parameters:
    a value obtained through a small named helper is the value"""
    import copy as _copy
    if depth > 4:
        return e
    names = {k.name for k in cls.mro}

    def unique_prop(attr):
        owners = [k for ks in P.by_name.values() for k in ks if attr in k.props and 'get' in k.props[attr]]
        others = [k for ks in P.by_name.values() for k in ks if attr in k.methods or attr in k.class_attrs]
        return owners[0] if len(owners) == 1 and not others else None

    class T(ast.NodeTransformer):
        def visit_Attribute(self, n):
            self.generic_visit(n)
            # `order.target_name` where exactly one class of the package defines a property of that name with a straight-line getter:
            # the value of the getter with self := the receiver
            if isinstance(n.ctx, ast.Load) and isinstance(n.value, ast.Name) and n.value.id not in ('self', 'cls'):
                k = unique_prop(n.attr)
                if k is not None:
                    ret = simple_return(k.props[n.attr]['get'])
                    if ret is not None and not any(isinstance(x, ast.Name) and x.id != 'self' and not isinstance(x.ctx, ast.Load) for x in ast.walk(ret)):
                        return subst(ret, {'self': n.value}) if False else _put_self(ret, n.value)
            return n

        def visit_Call(self, n):
            self.generic_visit(n)
            f = n.func
            if not (isinstance(f, ast.Attribute) and isinstance(f.value, ast.Name) and (f.value.id in ('self', 'cls') or f.value.id in names)) or n.keywords:
                return n
            hit = P.lookup(cls, f.attr)
            if not hit or hit[1] != 'method':
                return n
            fn = hit[2]
            ret = simple_return(fn)
            if ret is None:
                return n
            static = any(isinstance(d, ast.Name) and d.id == 'staticmethod' for d in fn.decorator_list)
            params = [a.arg for a in fn.args.args][(0 if static else 1):]
            if len(params) != len(n.args) or any(isinstance(x, ast.Call) for a in n.args for x in ast.walk(a)):
                return n
            return inline_accessors(P, cls, subst(ret, dict(zip(params, n.args))), depth + 1)
    return T().visit(_copy.deepcopy(e))


def inline_class_factories(P, e, owner=None):
    """copy of e in which `K.make(a, b)` -- K a class of the package, make a classmethod whose body is a straight-line computation -- is replaced by
    what it returns with cls := K and the parameters := the (call-free) arguments: `_WorkOrder.for_target(t, g, i)` is `_WorkOrder(t, g, ...)`"""
    import copy as _copy

    class T(ast.NodeTransformer):
        def visit_Call(self, n):
            self.generic_visit(n)
            f = n.func
            if not (isinstance(f, ast.Attribute) and isinstance(f.value, ast.Name)) or n.keywords:
                return n
            if P.has_cls(f.value.id):
                k = P.cls(f.value.id)
            elif owner is not None and f.value.id in ('self', 'cls'):
                k = owner            # a static / class method of the owner called through self (`self._new_waiting_request(request, callback)`)
            else:
                return n
            hit = P.lookup(k, f.attr)
            if not hit or hit[1] != 'method':
                return n
            fn = hit[2]
            deco = [d.id for d in fn.decorator_list if isinstance(d, ast.Name)]
            if deco not in (['classmethod'], ['staticmethod']):
                return n
            ret = simple_return(fn)
            params = [a.arg for a in fn.args.args]
            skip = 1 if deco == ['classmethod'] else 0
            if ret is None or len(params) - skip != len(n.args) or any(isinstance(x, ast.Call) for a in n.args for x in ast.walk(a)):
                return n
            env = dict(zip(params[skip:], n.args))
            if skip:
                env[params[0]] = ast.Name(id=k.name, ctx=ast.Load())
            return subst(ret, env)
    return T().visit(_copy.deepcopy(e))


def splice_self_statement_calls(P, cls, fn):
    """shallow copy of fn in which a statement `self.h(a, ...)` -- h a private method of cls with a straight-line body of assignments and
    expression statements, called with call-free arguments -- is replaced by that body with the parameters substituted (one level):
    `self._budget__adjust_limit(value)` reads as the store it performs"""
    import copy as _copy
    out = _copy.copy(fn)
    body, changed = [], False
    for st in fn.body:
        c = st.value if isinstance(st, ast.Expr) and isinstance(st.value, ast.Call) else None
        hit = None
        if c is not None and isinstance(c.func, ast.Attribute) and isinstance(c.func.value, ast.Name) and c.func.value.id == 'self' and not c.keywords \
                and c.func.attr.startswith('_') and not any(isinstance(x, ast.Call) for a in c.args for x in ast.walk(a)):
            hit = P.lookup(cls, c.func.attr)
        if hit and hit[1] == 'method' and not hit[2].decorator_list and not hit[2].args.vararg and not hit[2].args.kwarg and not hit[2].args.defaults:
            fd = hit[2]
            hb = [x for x in fd.body if not (isinstance(x, ast.Expr) and isinstance(x.value, ast.Constant))]
            ps = [a.arg for a in fd.args.args]
            stored = {x.id for b in hb for x in ast.walk(b) if isinstance(x, ast.Name) and isinstance(x.ctx, ast.Store)}
            if ps and ps[0] == 'self' and len(ps) - 1 == len(c.args) and all(isinstance(b, (ast.Assign, ast.AugAssign, ast.Expr)) for b in hb) and not stored:
                env = dict(zip(ps[1:], c.args))
                for b in hb:
                    nb = subst(b, env) if env else _copy.deepcopy(b)
                    for x in ast.walk(nb):
                        ast.copy_location(x, st)
                    body.append(ast.fix_missing_locations(nb))
                changed = True
                continue
        body.append(st)
    if not changed:
        return fn
    out.body = body
    return out
