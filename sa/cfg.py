"""L2 -- per-entry-point control-flow supergraph with context-sensitive inlining
of self./super()/static calls and property setters, for one *concrete* receiver class.

Node kinds
  entry, exit, raise_exit           graph terminals
  stmt                              simple statement (Assign, AugAssign, Expr, Delete, Pass, ...)
  cond                              one boolean literal of a test; out-edges labelled 'T' / 'F'
  for                               loop head; 'T' = next element bound, 'F' = exhausted
  return, raise                     in some frame
  call_enter / call_exit            boundaries of an inlined call
  join                              no-op
Edges: (label) with label in {None,'T','F','exc'}
"""
import ast
import itertools

from . import AnalysisError


class Frame:
    _ids = itertools.count()

    def __init__(self, concrete, defcls, func, parent=None, call=None, kind='method'):
        self.id = next(Frame._ids)
        self.concrete, self.defcls, self.func = concrete, defcls, func
        self.parent, self.call, self.kind = parent, call, kind
        self.depth = 0 if parent is None else parent.depth + 1
        self.argmap = {}          # param name -> (ast expr, frame in which to evaluate it)
        if call is not None and isinstance(call, ast.Call) and kind in ('method', 'static'):
            self._bind(call)
        elif call is not None and kind == 'setter' and isinstance(call, ast.Assign):
            params = [p.arg for p in func.args.args]
            if len(params) >= 2:
                self.argmap[params[1]] = (call.value, parent)

    def _bind(self, call):
        a = self.func.args
        params = [p.arg for p in a.posonlyargs + a.args]
        if self.kind != 'static' and params and params[0] == 'self':
            params = params[1:]
        defaults = dict(zip(reversed(params), reversed(a.defaults))) if a.defaults else {}
        for p, d in defaults.items():
            self.argmap[p] = (d, None)
        for p, v in zip(params, call.args):
            if isinstance(v, ast.Starred):
                break
            self.argmap[p] = (v, self.parent)
        for kw in call.keywords:
            if kw.arg:
                self.argmap[kw.arg] = (kw.value, self.parent)

    def const_of(self, expr):
        """('const', value) if expr is a compile-time constant in this frame, else None"""
        if isinstance(expr, ast.Constant):
            return ('const', expr.value)
        if isinstance(expr, ast.Name) and expr.id in self.argmap:
            e, fr = self.argmap[expr.id]
            if isinstance(e, ast.Constant):
                return ('const', e.value)
            if fr is not None:
                return fr.const_of(e)
        return None

    @property
    def qual(self):
        return f'{self.defcls.name if self.defcls else "?"}.{self.func.name}'

    def stack(self):
        f, out = self, []
        while f:
            out.append(f.qual)
            f = f.parent
        return list(reversed(out))

    def on_stack(self, defcls, func):
        f = self
        while f:
            if f.defcls is defcls and f.func is func:
                return True
            f = f.parent
        return False


class Node:
    def __init__(self, nid, kind, node, frame, note=''):
        self.id, self.kind, self.ast, self.frame, self.note = nid, kind, node, frame, note

    @property
    def line(self):
        return getattr(self.ast, 'lineno', None)

    def src(self):
        if self.ast is None:
            return self.note
        try:
            s = ast.unparse(self.ast)
        except Exception:
            s = '?'
        return s.split('\n')[0][:100]

    @property
    def file(self):
        fr = self.frame
        return str(fr.defcls.mod.path) if fr is not None and fr.defcls is not None else '?'

    def __repr__(self):
        fr = self.frame.qual if self.frame else ''
        return f'#{self.id}:{self.kind}[{fr}:{self.line}] {self.src()}'


class Graph:
    def __init__(self):
        self.nodes = {}
        self.succ = {}
        self.pred = {}
        self._n = itertools.count()
        self.inlined = set()      # (frame id, id(ast.Call | setter Assign)) that were expanded in place
        self.call_frames = {}     # same key -> callee Frame

    def add(self, kind, node=None, frame=None, note=''):
        nid = next(self._n)
        self.nodes[nid] = Node(nid, kind, node, frame, note)
        self.succ[nid] = []
        self.pred[nid] = []
        return nid

    def edge(self, a, b, label=None):
        if (label, b) not in self.succ[a]:
            self.succ[a].append((label, b))
            self.pred[b].append((label, a))

    def connect(self, frontier, b):
        for (a, label) in frontier:
            self.edge(a, b, label)

    # -- queries ----------------------------------------------------------
    def reach(self, starts, avoid=frozenset(), follow=lambda label: True):
        seen, todo = set(), list(starts)
        while todo:
            n = todo.pop()
            if n in seen or n in avoid:
                continue
            seen.add(n)
            for (label, m) in self.succ[n]:
                if follow(label):
                    todo.append(m)
        return seen

    def find(self, pred):
        return [n for n in self.nodes.values() if pred(n)]

    def shortest_path(self, src, dst, follow=lambda label: label != 'exc'):
        """node ids of a shortest path src..dst, or None"""
        prev = {src: None}
        todo = [src]
        while todo:
            nxt = []
            for n in todo:
                if n == dst:
                    out = []
                    while n is not None:
                        out.append(n)
                        n = prev[n]
                    return list(reversed(out))
                for (label, m) in self.succ[n]:
                    if follow(label) and m not in prev:
                        prev[m] = n
                        nxt.append(m)
            todo = nxt
        return None

    def dominated_by(self, target, blockers, start=None, follow=lambda label: label != 'exc'):
        """True iff every path from `start` (default entry) to `target` passes one of `blockers`"""
        start = self.entry if start is None else start
        if start in blockers:
            return True
        return target not in self.reach([start], avoid=frozenset(blockers), follow=follow)

    def reach_edges(self, starts, cut_edges=frozenset(), follow=lambda label: label != 'exc'):
        """reachability that additionally refuses the (node, label) out-edges in cut_edges"""
        seen, todo = set(), list(starts)
        while todo:
            n = todo.pop()
            if n in seen:
                continue
            seen.add(n)
            for (label, m) in self.succ[n]:
                if follow(label) and (n, label) not in cut_edges:
                    todo.append(m)
        return seen


class Ctx:
    """Targets for non-local control inside one frame."""
    def __init__(self, ret, retT=None, retF=None, handlers=(), loop=None, raise_to=None):
        self.ret, self.retT, self.retF = ret, retT, retF
        self.handlers = list(handlers)    # innermost first: list of (names|None, node id)
        self.loop = loop                  # (head id, break collector list)
        self.raise_to = raise_to          # node id for uncaught raises of this frame

    def with_(self, **kw):
        c = Ctx(self.ret, self.retT, self.retF, self.handlers, self.loop, self.raise_to)
        for k, v in kw.items():
            setattr(c, k, v)
        return c


SUBSCRIPT_EXC = {'KeyError', 'IndexError', 'LookupError'}


class Builder:
    def __init__(self, program, maxdepth=10, inline_filter=None, call_exc=False):
        self.P = program
        self.maxdepth = maxdepth
        self.call_exc = call_exc        # every call that is not inlined may raise: 'exc' edges to the handlers / the finally block / the raise exit
        self.inline_filter = inline_filter or (lambda frame, callee_cls, fn: True)

    # ---- public ----------------------------------------------------------
    def build(self, concrete, method, after=None, boolean=False):
        hit = self.P.lookup(concrete, method, after)
        if not hit or hit[1] != 'method':
            raise AnalysisError(f'anchor method {concrete.name}.{method} not found')
        defcls, _, fn = hit
        return self.build_func(concrete, defcls, fn, boolean=boolean)

    def build_setter(self, concrete, prop):
        ps = self.P.lookup_prop(concrete, prop, 'set')
        if not ps:
            raise AnalysisError(f'anchor property setter {concrete.name}.{prop} not found')
        return self.build_func(concrete, ps[0], ps[1])

    def build_entry(self, concrete, entry, boolean=False):
        """entry: 'name' (method) or 'prop:name' (property setter)"""
        if entry.startswith('prop:'):
            return self.build_setter(concrete, entry[5:])
        return self.build(concrete, entry, boolean=boolean)

    def build_func(self, concrete, defcls, fn, boolean=False):
        g = Graph()
        self.g = g
        frame = Frame(concrete, defcls, fn)
        frame.norm_func = norm_func(self.P, fn)
        g.entry = g.add('entry', None, frame, 'ENTRY ' + frame.qual)
        g.exit = g.add('exit', None, frame, 'EXIT')
        g.raise_exit = g.add('raise_exit', None, frame, 'RAISE-EXIT')
        if boolean:
            g.exitT = g.add('join', None, frame, 'EXIT-TRUE')
            g.exitF = g.add('join', None, frame, 'EXIT-FALSE')
            g.edge(g.exitT, g.exit)
            g.edge(g.exitF, g.exit)
            ctx = Ctx(ret=g.exit, retT=g.exitT, retF=g.exitF, raise_to=g.raise_exit)
            fr = self._seq(prepass(self.P, fn), [(g.entry, None)], frame, ctx)
            g.connect(fr, g.exitF)
        else:
            ctx = Ctx(ret=g.exit, raise_to=g.raise_exit)
            fr = self._seq(prepass(self.P, fn), [(g.entry, None)], frame, ctx)
            g.connect(fr, g.exit)
        g.top = frame
        return g

    # ---- statements ------------------------------------------------------
    def _seq(self, stmts, frontier, frame, ctx):
        for st in stmts:
            if not frontier:
                break
            frontier = self._stmt(st, frontier, frame, ctx)
        return frontier

    def _simple(self, st, frontier, frame, ctx, kind='stmt'):
        """Expand the inlinable calls inside `st`, then the statement node itself."""
        frontier = self._expand_calls(st, frontier, frame, ctx)
        n = self.g.add(kind, st, frame)
        self.g.connect(frontier, n)
        self._exc_edges(n, st, ctx)
        return n

    def _exc_edges(self, n, st, ctx):
        # a subscript can raise KeyError/IndexError when it is read or deleted (or is the target of an augmented
        # assignment); a plain store `d[k] = v` cannot
        aug_targets = {id(x.target) for x in ast.walk(st) if isinstance(x, ast.AugAssign)}
        subs = [x for x in ast.walk(st) if isinstance(x, ast.Subscript) and (not isinstance(x.ctx, ast.Store) or id(x) in aug_targets)]
        has_sub = bool(subs)
        # `pool[0]` -- a local indexed by an integer literal -- reads an element of a sequence: it cannot raise KeyError
        has_key_sub = any(not (isinstance(x.value, ast.Name) and isinstance(x.slice, ast.Constant) and isinstance(x.slice.value, int)
                               and not isinstance(x.slice.value, bool)) for x in subs)
        has_call = any(isinstance(x, ast.Call) for x in ast.walk(st))
        for names, h in ctx.handlers:
            if names is None:            # catch-all
                if has_sub or has_call:
                    self.g.edge(n, h, 'exc')
                break
            if set(names) & SUBSCRIPT_EXC:
                if has_key_sub or (has_sub and set(names) & {'IndexError', 'LookupError'}):
                    self.g.edge(n, h, 'exc')
                    break
        if self.call_exc and any(isinstance(x, ast.Call) and (self.g.nodes[n].frame.id, id(x)) not in self.g.inlined for x in ast.walk(st)):
            for names, h in ctx.handlers:
                self.g.edge(n, h, 'exc')
                if names is None or 'Exception' in names or 'BaseException' in names:
                    break
            else:
                self.g.edge(n, ctx.raise_to, 'exc')

    def _stmt(self, st, frontier, frame, ctx):
        g = self.g
        if isinstance(st, (ast.Assign, ast.AugAssign, ast.AnnAssign, ast.Expr, ast.Delete,
                           ast.Pass, ast.Import, ast.ImportFrom, ast.Global, ast.Nonlocal)):
            if isinstance(st, ast.Expr) and isinstance(st.value, ast.Constant):
                return frontier                      # docstring
            # `a, b = x, y`: the element-wise assignments it stands for (all right-hand sides are evaluated first, so temporaries are used
            # when a later right-hand side reads an earlier target)
            if isinstance(st, ast.Assign) and len(st.targets) == 1 and isinstance(st.targets[0], (ast.Tuple, ast.List)) \
                    and isinstance(st.value, (ast.Tuple, ast.List)) and len(st.targets[0].elts) == len(st.value.elts) \
                    and not any(isinstance(x, ast.Starred) for x in list(st.targets[0].elts) + list(st.value.elts)):
                tg, vs = st.targets[0].elts, st.value.elts

                def reads(v, t):
                    tt = ast.unparse(t)
                    return any(isinstance(x, (ast.Name, ast.Attribute, ast.Subscript)) and ast.unparse(x) == tt for x in ast.walk(v))
                sequential = not any(reads(vs[j], tg[i]) for i in range(len(tg)) for j in range(i + 1, len(vs)))
                parts = []
                if sequential:
                    parts = [ast.Assign(targets=[t], value=v) for t, v in zip(tg, vs)]
                else:
                    tmps = [f'__tuple_tmp{k}_{st.lineno}' for k in range(len(vs))]
                    parts = [ast.Assign(targets=[ast.Name(nm, ast.Store())], value=v) for nm, v in zip(tmps, vs)]
                    parts += [ast.Assign(targets=[t], value=ast.Name(nm, ast.Load())) for nm, t in zip(tmps, tg)]
                for p_ in parts:
                    ast.copy_location(p_, st)
                    ast.fix_missing_locations(p_)
                    frontier = self._stmt(p_, frontier, frame, ctx)
                return frontier
            # `x = any(<generator>)` / `x = all(<generator>)`: the flag loop it stands for (the generator is consumed up to the deciding element)
            if isinstance(st, ast.Assign) and len(st.targets) == 1 and isinstance(st.targets[0], ast.Name) and isinstance(st.value, ast.Call) \
                    and isinstance(st.value.func, ast.Name) and st.value.func.id in ('any', 'all') and len(st.value.args) == 1 and not st.value.keywords \
                    and isinstance(st.value.args[0], ast.GeneratorExp) and len(st.value.args[0].generators) == 1 \
                    and isinstance(st.value.args[0].generators[0].target, (ast.Name, ast.Tuple)):
                is_any = st.value.func.id == 'any'
                comp = st.value.args[0]
                gen = comp.generators[0]
                nm = st.targets[0].id
                hit = [ast.Assign(targets=[ast.Name(nm, ast.Store())], value=ast.Constant(is_any)), ast.Break()]
                test = comp.elt if is_any else ast.UnaryOp(op=ast.Not(), operand=comp.elt)
                body = [ast.If(test=test, body=hit, orelse=[])]
                for c in reversed(gen.ifs):
                    body = [ast.If(test=c, body=body, orelse=[])]
                parts = [ast.Assign(targets=[ast.Name(nm, ast.Store())], value=ast.Constant(not is_any)),
                         ast.For(target=gen.target, iter=gen.iter, body=body, orelse=[])]
                for p_ in parts:
                    ast.copy_location(p_, st)
                    for x in ast.walk(p_):
                        if not hasattr(x, 'lineno'):
                            ast.copy_location(x, st)
                    ast.fix_missing_locations(p_)
                    frontier = self._stmt(p_, frontier, frame, ctx)
                return frontier
            # property setter:  self.p = v
            if isinstance(st, ast.Assign) and len(st.targets) == 1:
                t = st.targets[0]
                if (isinstance(t, ast.Attribute) and isinstance(t.value, ast.Name)
                        and t.value.id == 'self' and frame.concrete is not None):
                    ps = self.P.lookup_prop(frame.concrete, t.attr, 'set')
                    if ps:
                        frontier = self._expand_calls(st.value, frontier, frame, ctx)
                        return self._inline(st, ps[0], ps[1], frontier, frame, ctx, kind='setter')
            n = self._simple(st, frontier, frame, ctx)
            return [(n, None)]
        if isinstance(st, ast.Return):
            return self._return(st, frontier, frame, ctx)
        if isinstance(st, ast.Raise):
            n = self._simple(st, frontier, frame, ctx, 'raise')
            self._route_raise(n, st, ctx)
            return []
        if isinstance(st, ast.Assert):
            t, f = self._cond(st.test, frontier, frame, ctx)
            n = g.add('raise', st, frame, 'AssertionError')
            g.connect(f, n)
            self._route_raise(n, None, ctx, exc='AssertionError')
            return t
        if isinstance(st, ast.If):
            t, f = self._cond(st.test, frontier, frame, ctx)
            a = self._seq(st.body, t, frame, ctx)
            b = self._seq(st.orelse, f, frame, ctx) if st.orelse else f
            return a + b
        if isinstance(st, ast.While):
            head = g.add('join', st, frame, 'while-head')
            g.connect(frontier, head)
            t, f = self._cond(st.test, [(head, None)], frame, ctx)
            brk = []
            body = self._seq(st.body, t, frame, ctx.with_(loop=(head, brk)))
            g.connect(body, head)
            if st.orelse:
                f = self._seq(st.orelse, f, frame, ctx)
            return f + brk
        if isinstance(st, ast.For):
            frontier = self._expand_calls(st.iter, frontier, frame, ctx)
            head = g.add('for', st, frame)
            g.connect(frontier, head)
            brk = []
            body = self._seq(st.body, [(head, 'T')], frame, ctx.with_(loop=(head, brk)))
            g.connect(body, head)
            f = [(head, 'F')]
            if st.orelse:
                f = self._seq(st.orelse, f, frame, ctx)
            return f + brk
        if isinstance(st, ast.Break):
            n = g.add('stmt', st, frame)
            g.connect(frontier, n)
            ctx.loop[1].append((n, None))
            return []
        if isinstance(st, ast.Continue):
            n = g.add('stmt', st, frame)
            g.connect(frontier, n)
            g.edge(n, ctx.loop[0])
            return []
        if isinstance(st, ast.Try):
            return self._try(st, frontier, frame, ctx)
        if isinstance(st, ast.With):
            for item in st.items:
                frontier = self._expand_calls(item.context_expr, frontier, frame, ctx)
            n = g.add('stmt', st, frame, 'with')
            g.connect(frontier, n)
            return self._seq(st.body, [(n, None)], frame, ctx)
        if isinstance(st, (ast.FunctionDef, ast.ClassDef)):
            n = g.add('stmt', st, frame, 'def')
            g.connect(frontier, n)
            return [(n, None)]
        raise AnalysisError(f'unsupported statement kind {type(st).__name__} at line {getattr(st, "lineno", "?")} in {frame.qual}')

    def _route_raise(self, n, st, ctx, exc=None):
        if exc is None and st is not None and st.exc is not None:
            e = st.exc
            if isinstance(e, ast.Call):
                e = e.func
            exc = e.id if isinstance(e, ast.Name) else None   # `raise e` -> unknown name
        for names, h in ctx.handlers:
            if names is None or (exc in names) or ('Exception' in names and exc != 'BaseException'):
                self.g.edge(n, h, 'exc')
                return
        self.g.edge(n, ctx.raise_to, 'exc')

    def _try(self, st, frontier, frame, ctx):
        g = self.g
        after = []
        handlers = []
        hnodes = []
        for h in st.handlers:
            if h.type is None:
                names = None
            elif isinstance(h.type, ast.Tuple):
                names = [ast.unparse(e) for e in h.type.elts]
            else:
                names = [ast.unparse(h.type)]
            hn = g.add('join', h, frame, 'except ' + (','.join(names) if names else '*'))
            handlers.append((names, hn))
            hnodes.append((h, hn))
        fin_raise = ctx.raise_to
        if st.finalbody:
            # exceptional continuation through the finally block
            fin_in = g.add('join', st, frame, 'finally(exc)')
            fr = self._seq(st.finalbody, [(fin_in, None)], frame, ctx)
            g.connect(fr, ctx.raise_to)
            fin_raise = fin_in
        inner = ctx.with_(handlers=handlers + ctx.handlers, raise_to=fin_raise)
        body = self._seq(st.body, frontier, frame, inner)
        if st.orelse:
            body = self._seq(st.orelse, body, frame, ctx.with_(raise_to=fin_raise))
        after += body
        for h, hn in hnodes:
            after += self._seq(h.body, [(hn, None)], frame, ctx.with_(raise_to=fin_raise))
        if st.finalbody:
            after = self._seq(st.finalbody, after, frame, ctx)
        return after

    def _return(self, st, frontier, frame, ctx):
        g = self.g
        if st.value is not None and ctx.retT is not None:
            # boolean-context inlined callee: route by truth value
            n = g.add('return', st, frame)
            g.connect(frontier, n)
            v = st.value
            if isinstance(v, ast.Constant):
                g.edge(n, ctx.retT if v.value else ctx.retF)
                return []
            t, f = self._cond(v, [(n, None)], frame, ctx)
            g.connect(t, ctx.retT)
            g.connect(f, ctx.retF)
            return []
        if st.value is not None:
            frontier = self._expand_calls(st.value, frontier, frame, ctx)
        n = g.add('return', st, frame)
        g.connect(frontier, n)
        if st.value is not None:
            self._exc_edges(n, st, ctx)
        if ctx.retT is not None:          # bare `return` in boolean context: falsy
            g.edge(n, ctx.retF)
        else:
            g.edge(n, ctx.ret)
        return []

    # ---- conditions ------------------------------------------------------
    def _cond(self, test, frontier, frame, ctx):
        """returns (true frontier, false frontier)"""
        g = self.g
        if isinstance(test, ast.BoolOp):
            if isinstance(test.op, ast.And):
                fs = []
                cur = frontier
                for v in test.values:
                    cur, f = self._cond(v, cur, frame, ctx)
                    fs += f
                return cur, fs
            else:
                ts = []
                cur = frontier
                for v in test.values:
                    t, cur = self._cond(v, cur, frame, ctx)
                    ts += t
                return ts, cur
        if isinstance(test, ast.UnaryOp) and isinstance(test.op, ast.Not):
            t, f = self._cond(test.operand, frontier, frame, ctx)
            return f, t
        if isinstance(test, ast.Constant):
            return (frontier, []) if test.value else ([], frontier)
        if isinstance(test, ast.Call) and isinstance(test.func, ast.Name) and test.func.id == 'bool' and len(test.args) == 1 and not test.keywords:
            return self._cond(test.args[0], frontier, frame, ctx)          # bool(x) as a condition is x as a condition
        # a private predicate property of the class (`self._holds_resources`, getter `return self._reserved_resources != None`, or a
        # conjunction of such tests) is the condition its getter returns: reading it has no other effect
        if is_self_attr(test) and frame.concrete is not None and getattr(frame, 'kind', None) != 'static' and ctx is not None:
            pg = self.P.lookup_prop(frame.concrete, test.attr, 'get')
            hit_ = self.P.lookup(frame.concrete, test.attr)
            if pg and hit_ and hit_[1] == 'prop':
                body_ = [s_ for s_ in pg[1].body if not (isinstance(s_, ast.Expr) and isinstance(s_.value, ast.Constant))]
                def _is_bool_call(x):
                    return isinstance(x, ast.Call) and isinstance(x.func, ast.Name) and x.func.id == 'bool' and len(x.args) == 1 and not x.keywords
                if len(body_) == 1 and isinstance(body_[0], ast.Return) and (isinstance(body_[0].value, (ast.Compare, ast.BoolOp, ast.UnaryOp)) or _is_bool_call(body_[0].value)) \
                        and not any(isinstance(x, (ast.Call, ast.Lambda, ast.NamedExpr)) and not _is_bool_call(x) for x in ast.walk(body_[0].value)) \
                        and all(x.id in ('self', 'bool') for x in ast.walk(body_[0].value) if isinstance(x, ast.Name)) \
                        and getattr(self, '_prop_depth', 0) < 4:
                    self._prop_depth = getattr(self, '_prop_depth', 0) + 1
                    try:
                        import copy as _copy
                        e_ = _copy.deepcopy(body_[0].value)
                        for x in ast.walk(e_):
                            ast.copy_location(x, test)
                        return self._cond(e_, frontier, frame, ctx)
                    finally:
                        self._prop_depth -= 1
        # any(<generator>) / all(<generator>): the short-circuit loop it stands for (a list comprehension evaluates every element
        # first -- different side effects -- and is left alone)
        if isinstance(test, ast.Call) and isinstance(test.func, ast.Name) and test.func.id in ('any', 'all') and len(test.args) == 1 \
                and not test.keywords and isinstance(test.args[0], ast.GeneratorExp) and len(test.args[0].generators) == 1 \
                and isinstance(test.args[0].generators[0].target, (ast.Name, ast.Tuple)):
            comp = test.args[0]
            gen = comp.generators[0]
            loop = ast.copy_location(ast.For(target=gen.target, iter=gen.iter, body=[ast.copy_location(ast.Expr(comp.elt), test)], orelse=[]), test)
            ast.fix_missing_locations(loop)
            frontier = self._expand_calls(gen.iter, frontier, frame, ctx)
            head = g.add('for', loop, frame, 'any/all')
            g.connect(frontier, head)
            cur = [(head, 'T')]
            for c in gen.ifs:
                cur, f = self._cond(c, cur, frame, ctx)
                g.connect(f, head)
            t, f = self._cond(comp.elt, cur, frame, ctx)
            if test.func.id == 'any':
                g.connect(f, head)
                return t, [(head, 'F')]
            g.connect(t, head)
            return [(head, 'F')], f
        # a bare inlinable call used as a boolean: route callee returns by truth value
        if isinstance(test, ast.Call):
            tgt = self._resolve_call(test, frame)
            if tgt and self._may_inline(frame, *tgt):
                frontier = self._expand_args(test, frontier, frame, ctx)
                tj = g.add('join', test, frame, 'call-true')
                fj = g.add('join', test, frame, 'call-false')
                out = self._inline(test, tgt[0], tgt[1], frontier, frame, ctx, boolean=(tj, fj))
                # callee fell off the end without return -> None -> falsy
                g.connect(out, fj)
                return [(tj, None)], [(fj, None)]
        cv = self._const_test(test, frame)
        if cv is not None:
            return (frontier, []) if cv else ([], frontier)
        frontier = self._expand_calls(test, frontier, frame, ctx)
        n = g.add('cond', test, frame)
        g.connect(frontier, n)
        self._exc_edges(n, test, ctx)
        return [(n, 'T')], [(n, 'F')]

    def _const_test(self, test, frame):
        c = frame.const_of(test)
        if c:
            return bool(c[1])
        if isinstance(test, ast.Compare) and len(test.ops) == 1:
            l, r = frame.const_of(test.left), frame.const_of(test.comparators[0])
            if l and r:
                op = test.ops[0]
                try:
                    if isinstance(op, (ast.Eq, ast.Is)):
                        return l[1] == r[1]
                    if isinstance(op, (ast.NotEq, ast.IsNot)):
                        return l[1] != r[1]
                    if isinstance(op, ast.Lt):
                        return l[1] < r[1]
                    if isinstance(op, ast.LtE):
                        return l[1] <= r[1]
                    if isinstance(op, ast.Gt):
                        return l[1] > r[1]
                    if isinstance(op, ast.GtE):
                        return l[1] >= r[1]
                except TypeError:
                    return None
        return None

    # ---- calls -----------------------------------------------------------
    def _resolve_call(self, call, frame):
        """-> (defcls, fn) for inlinable calls, else None"""
        f = call.func
        if frame.concrete is None:
            return None
        if isinstance(f, ast.Attribute):
            v = f.value
            if isinstance(v, ast.Name) and v.id == 'self' and frame.kind != 'static':
                hit = self.P.lookup(frame.concrete, f.attr)
                if hit and hit[1] == 'method':
                    return hit[0], hit[2]
                return None
            if (isinstance(v, ast.Call) and isinstance(v.func, ast.Name) and v.func.id == 'super'
                    and not v.args):
                hit = self.P.lookup(frame.concrete, f.attr, after=frame.defcls)
                if hit and hit[1] == 'method':
                    return hit[0], hit[2]
                return None
            if isinstance(v, ast.Name):
                r = self.P.resolve_name(frame.defcls.mod, v.id)
                if r and r[0] == 'class':
                    k = r[1]
                    hit = self.P.lookup(k, f.attr)
                    if hit and hit[1] == 'method' and f.attr in hit[0].static:
                        return hit[0], hit[2]
        return None

    def _may_inline(self, frame, defcls, fn):
        if frame.depth >= self.maxdepth or frame.on_stack(defcls, fn):
            return False
        return self.inline_filter(frame, defcls, fn)

    def _expand_args(self, call, frontier, frame, ctx):
        for a in call.args:
            frontier = self._expand_calls(a, frontier, frame, ctx)
        for k in call.keywords:
            frontier = self._expand_calls(k.value, frontier, frame, ctx)
        return frontier

    def _expand_calls(self, node, frontier, frame, ctx):
        """Inline (in evaluation order) every inlinable call occurring inside `node`."""
        if node is None:
            return frontier
        for sub in self._calls_in_order(node):
            tgt = self._resolve_call(sub, frame)
            if tgt and self._may_inline(frame, *tgt):
                frontier = self._inline(sub, tgt[0], tgt[1], frontier, frame, ctx)
        return frontier

    def _calls_in_order(self, node):
        out = []

        def visit(n):
            if isinstance(n, (ast.Lambda, ast.FunctionDef, ast.ListComp, ast.SetComp,
                              ast.DictComp, ast.GeneratorExp)):
                return
            for ch in ast.iter_child_nodes(n):
                visit(ch)
            if isinstance(n, ast.Call):
                out.append(n)
        visit(node)
        return out

    def _inline(self, call, defcls, fn, frontier, frame, ctx, boolean=None, kind='method'):
        g = self.g
        static = fn.name in defcls.static
        callee = Frame(frame.concrete, defcls, fn, parent=frame, call=call,
                       kind='static' if static else kind)
        callee.norm_func = norm_func(self.P, fn)
        g.inlined.add((frame.id, id(call)))
        g.call_frames[(frame.id, id(call))] = callee
        enter = g.add('call_enter', call, callee, 'CALL ' + callee.qual)
        g.connect(frontier, enter)
        leave = g.add('call_exit', call, callee, 'RET ' + callee.qual)
        # uncaught raises inside the callee propagate to the caller's handlers
        prop = g.add('join', call, callee, 'propagate-raise')
        routed = False
        for names, h in ctx.handlers:
            if names is None or 'Exception' in names:
                g.edge(prop, h, 'exc')
                routed = True
                break
        if not routed:
            # conservatively: any handler may or may not match; route to all named + outer
            for names, h in ctx.handlers:
                g.edge(prop, h, 'exc')
            g.edge(prop, ctx.raise_to, 'exc')
        if boolean:
            cctx = Ctx(ret=leave, retT=boolean[0], retF=boolean[1], raise_to=prop)
        else:
            cctx = Ctx(ret=leave, raise_to=prop)
        out = self._seq(prepass(self.P, fn), [(enter, None)], callee, cctx)
        if boolean:
            return out          # caller connects fall-off to the false join
        g.connect(out, leave)
        return [(leave, None)]


def dump(g, limit=400):
    for nid in sorted(g.nodes):
        n = g.nodes[nid]
        outs = ', '.join(f'{l or ""}->{m}' for l, m in g.succ[nid])
        print(f'{"  " * n.frame.depth}{n!r}   [{outs}]')
        limit -= 1
        if limit <= 0:
            break




DEFERRED = (ast.Lambda, ast.FunctionDef, ast.AsyncFunctionDef, ast.ClassDef)

PURE_BUILTINS = {'len', 'max', 'min', 'abs', 'isinstance', 'float', 'int', 'str', 'bool', 'round', 'sum', 'any', 'all', 'sorted', 'list', 'tuple', 'repr',
                 'print', 'type', 'id', 'getattr', 'hasattr'}
_CP_CACHE = {}


def copy_propagate(fn):
    """body of fn in which a local that has just been stored into a field of self is read through that field afterwards:

        next_index = self._i + 1; self._i = next_index; if next_index >= n: ...      becomes      ...; if self._i >= n: ...

    After `self.f = x` (or `self.f[k] = x`) the local x and the field hold the same value until either is assigned again or a call
    that could change the field is made, so the rewrite is an identity on behaviour; it lets rules that follow a field (by name, at the
    time it is read) see through a local that a refactoring introduced.  Statements that are not rewritten keep their identity."""
    # cached on the function node itself (an id()-keyed table would be poisoned when a later Program re-uses the address of a freed node)
    cached = getattr(fn, '_sa_copyprop', None)
    if cached is not None and cached[0] is fn.body:        # (a shallow copy of the node with another body does not inherit the entry)
        return cached[1]
    import copy
    params = {a.arg for a in fn.args.args + fn.args.kwonlyargs}

    def target_ok(t):
        if isinstance(t, ast.Attribute) and isinstance(t.value, ast.Name) and t.value.id == 'self':
            return True
        if isinstance(t, ast.Subscript) and isinstance(t.value, ast.Attribute) and isinstance(t.value.value, ast.Name) and t.value.value.id == 'self' \
                and isinstance(t.slice, (ast.Name, ast.Constant)):
            return True
        return False

    def field_of(t):
        return t.attr if isinstance(t, ast.Attribute) else t.value.attr

    def kills(st, active):
        """names of active locals invalidated by executing st (anywhere inside it)"""
        dead = set()
        stored_names, stored_fields, risky_call = set(), set(), False
        for x in ast.walk(st):
            if isinstance(x, ast.Name) and isinstance(x.ctx, (ast.Store, ast.Del)):
                stored_names.add(x.id)
            elif isinstance(x, ast.Attribute) and isinstance(x.ctx, (ast.Store, ast.Del)) and isinstance(x.value, ast.Name) and x.value.id == 'self':
                stored_fields.add(x.attr)
            elif isinstance(x, ast.Subscript) and isinstance(x.ctx, (ast.Store, ast.Del)) and isinstance(x.value, ast.Attribute):
                stored_fields.add(x.value.attr)
            elif isinstance(x, ast.Call):
                f = x.func
                if not (isinstance(f, ast.Name) and f.id in PURE_BUILTINS):
                    risky_call = True
        for nm, t in active.items():
            key_names = {k.id for k in ast.walk(t) if isinstance(k, ast.Name) and k.id != 'self'}
            if nm in stored_names or key_names & stored_names or field_of(t) in stored_fields or risky_call:
                dead.add(nm)
        return dead

    class Sub(ast.NodeTransformer):
        def __init__(self, active):
            self.active = active
            self.changed = False

        def visit_Name(self, n):
            if isinstance(n.ctx, ast.Load) and n.id in self.active:
                self.changed = True
                t = copy.deepcopy(self.active[n.id])
                for x in ast.walk(t):
                    if hasattr(x, 'ctx'):
                        x.ctx = ast.Load()
                return ast.copy_location(t, n)
            return n

        def visit_FunctionDef(self, n):
            return n

        def visit_Lambda(self, n):
            return n

    def rewrite_expr(e, active):
        if e is None or not active:
            return e
        s_ = Sub(active)
        new = s_.visit(copy.deepcopy(e))
        return ast.fix_missing_locations(new) if s_.changed else e

    def block(stmts, active):
        out = []
        for st in stmts:
            new = st
            if isinstance(st, (ast.If, ast.While)):
                test = rewrite_expr(st.test, active)
                inner = dict(active) if isinstance(st, ast.If) else {k: v for k, v in active.items() if k not in kills(st, active)}
                body = block(st.body, dict(inner))
                orelse = block(st.orelse, dict(inner))
                if test is not st.test or any(a is not b for a, b in zip(body, st.body)) or any(a is not b for a, b in zip(orelse, st.orelse)):
                    new = ast.copy_location(type(st)(test=test, body=body, orelse=orelse), st)
            elif isinstance(st, ast.For):
                it = rewrite_expr(st.iter, active)
                inner = {k: v for k, v in active.items() if k not in kills(st, active)}
                body = block(st.body, dict(inner))
                orelse = block(st.orelse, dict(inner))
                if it is not st.iter or any(a is not b for a, b in zip(body, st.body)) or any(a is not b for a, b in zip(orelse, st.orelse)):
                    new = ast.copy_location(ast.For(target=st.target, iter=it, body=body, orelse=orelse, type_comment=None), st)
            elif isinstance(st, (ast.Try, ast.With, ast.FunctionDef, ast.ClassDef, ast.AsyncFunctionDef)):
                new = st        # not rewritten inside; everything it may change is invalidated below
            elif active and not (isinstance(st, (ast.Assign, ast.AugAssign)) and False):
                if isinstance(st, ast.Assign):
                    v = rewrite_expr(st.value, active)
                    # the container a subscript / attribute target writes into is read, not written: `data[p] = []` after `self.data = data`
                    # stores into self.data (keys are left alone)
                    tg = []
                    for t in st.targets:
                        if isinstance(t, (ast.Subscript, ast.Attribute)) and any(isinstance(x, ast.Name) and x.id in active for x in ast.walk(t.value)):
                            base = rewrite_expr(t.value, active)
                            t2 = copy.copy(t)
                            t2.value = base
                            tg.append(t2)
                        else:
                            tg.append(t)
                    if v is not st.value or any(a is not b for a, b in zip(tg, st.targets)):
                        new = ast.copy_location(ast.Assign(targets=tg, value=v, type_comment=None), st)
                elif isinstance(st, ast.AugAssign):
                    v = rewrite_expr(st.value, active)
                    if v is not st.value:
                        new = ast.copy_location(ast.AugAssign(target=st.target, op=st.op, value=v), st)
                elif isinstance(st, ast.Expr):
                    v = rewrite_expr(st.value, active)
                    if v is not st.value:
                        new = ast.copy_location(ast.Expr(value=v), st)
                elif isinstance(st, ast.Return) and st.value is not None:
                    v = rewrite_expr(st.value, active)
                    if v is not st.value:
                        new = ast.copy_location(ast.Return(value=v), st)
                elif isinstance(st, ast.Assert):
                    v = rewrite_expr(st.test, active)
                    if v is not st.test:
                        new = ast.copy_location(ast.Assert(test=v, msg=st.msg), st)
            if new is not st:
                ast.fix_missing_locations(new)
            out.append(new)
            # what this statement invalidates ...
            for nm in kills(st, active):
                active.pop(nm, None)
            # ... and what it establishes
            if isinstance(st, ast.Assign) and len(st.targets) == 1 and target_ok(st.targets[0]) and isinstance(st.value, ast.Name) \
                    and st.value.id not in params and st.value.id != 'self':
                active[st.value.id] = st.targets[0]
            # `self.f = x = <value>`: the chained form of the same thing
            if isinstance(st, ast.Assign) and len(st.targets) == 2:
                nm = [t for t in st.targets if isinstance(t, ast.Name)]
                fl = [t for t in st.targets if target_ok(t)]
                if len(nm) == 1 and len(fl) == 1 and nm[0].id not in params and not any(isinstance(x, ast.Name) and x.id == nm[0].id for x in ast.walk(st.value)):
                    active[nm[0].id] = fl[0]
        return out
    res = alias_inline(fn, block(fn.body, {}))
    fn._sa_copyprop = (fn.body, res)
    return res


def tame_aliases(fn):
    """locals that are nothing but another name for a container / object held in an attribute:  `x = <chain>.attr`  where x is assigned
    exactly once, the chain is made of names and attributes only, its root is a parameter (or self) that is never re-assigned, `attr` is not
    stored to anywhere in the function (so the attribute still refers to the same object wherever x is used) and x is not a loop target.
    -> {x: chain expression}.  Reading x and reading the chain then denote the same object."""
    params = {a.arg for a in fn.args.args + fn.args.kwonlyargs}
    stores, attr_stores, defs = {}, set(), {}
    for n in ast.walk(fn):
        if isinstance(n, ast.Name) and isinstance(n.ctx, (ast.Store, ast.Del)):
            stores[n.id] = stores.get(n.id, 0) + 1
        elif isinstance(n, ast.Attribute) and isinstance(n.ctx, (ast.Store, ast.Del)):
            attr_stores.add(n.attr)
        elif isinstance(n, (ast.FunctionDef, ast.Lambda)) and n is not fn:
            return {}
    pairs = []
    for n in ast.walk(fn):
        if isinstance(n, ast.Assign) and len(n.targets) == 1 and isinstance(n.targets[0], ast.Name) and isinstance(n.value, ast.Attribute):
            pairs.append((n.targets[0].id, n.value))
        elif isinstance(n, ast.Assign) and len(n.targets) == 1 and isinstance(n.targets[0], (ast.Tuple, ast.List)) and isinstance(n.value, (ast.Tuple, ast.List)) \
                and len(n.targets[0].elts) == len(n.value.elts) and not any(isinstance(x, ast.Starred) for x in list(n.targets[0].elts) + list(n.value.elts)):
            # `events, paused = self._events, self._paused_events`: element-wise (the right-hand sides are plain reads)
            if all(isinstance(v, (ast.Attribute, ast.Name, ast.Constant)) for v in n.value.elts):
                for t, v in zip(n.targets[0].elts, n.value.elts):
                    if isinstance(t, ast.Name) and isinstance(v, ast.Attribute):
                        pairs.append((t.id, v))
    for x, value in pairs:
        chain, ok = value, True
        while isinstance(chain, ast.Attribute):
            if chain.attr in attr_stores:
                ok = False
            chain = chain.value
        if not ok or not isinstance(chain, ast.Name) or chain.id not in params or stores.get(chain.id, 0) or stores.get(x, 0) != 1 or x in params:
            continue
        defs[x] = value
    return dict(defs)


def alias_inline(fn, stmts):
    """statements in which every read of a tame alias (see tame_aliases) is replaced by the attribute chain it stands for, so that
    `waiting = self._waiting_requests; waiting.pop(i)` is analysed as `self._waiting_requests.pop(i)`.  Only aliases of attributes whose
    name suggests a container or a collaborator object are inlined when their uses are object-like (method call, subscript, attribute):
    a local that *copies a value* (`old = self._count`) keeps its own identity."""
    import copy
    al = tame_aliases(fn)
    if not al:
        return stmts
    # keep only aliases all of whose uses are object-like: x.m(...), x[...], x.attr, len(x), iteration, membership
    par = {}
    for n in ast.walk(fn):
        for ch in ast.iter_child_nodes(n):
            par[ch] = n
    keep = {}
    for x, chain in al.items():
        uses = [n for n in ast.walk(fn) if isinstance(n, ast.Name) and n.id == x and isinstance(n.ctx, ast.Load)]
        def objlike(n):
            p = par.get(n)
            return (isinstance(p, ast.Attribute) and p.value is n) or (isinstance(p, ast.Subscript) and p.value is n) or \
                   (isinstance(p, ast.Call) and isinstance(p.func, ast.Name) and p.func.id in ('len', 'list', 'iter', 'enumerate', 'sorted', 'reversed', 'tuple') and n in p.args) or \
                   (isinstance(p, (ast.For, ast.comprehension)) and p.iter is n) or \
                   (isinstance(p, ast.Compare) and isinstance(p.ops[0], (ast.In, ast.NotIn)) and n in p.comparators) or \
                   (isinstance(p, ast.Compare) and len(p.ops) == 1 and isinstance(p.ops[0], (ast.Is, ast.IsNot, ast.Eq, ast.NotEq)) and
                    any(isinstance(o_, ast.Constant) and o_.value is None for o_ in [p.left] + p.comparators))      # `env != None`: a test of the reference
        if uses and all(objlike(n) for n in uses):
            keep[x] = chain
    if not keep:
        return stmts

    class Sub(ast.NodeTransformer):
        changed = False

        def visit_Name(self, n):
            if isinstance(n.ctx, ast.Load) and n.id in keep:
                Sub.changed = True
                return ast.copy_location(copy.deepcopy(keep[n.id]), n)
            return n
    out = []
    for st in stmts:
        Sub.changed = False
        new = Sub().visit(copy.deepcopy(st))
        if Sub.changed:
            ast.fix_missing_locations(new)
            out.append(new)
        else:
            out.append(st)
    return out



def _record_classes(P):
    """classes whose instances are plain records handled by the package: no base class from the package (object or a named tuple), no subclass in the
    package, and a private name or the event class -- a method that such a class alone defines cannot be overridden behind the package's back"""
    cached = P.__dict__.get('_sa_record_classes')
    if cached is not None:
        return cached
    out = set()
    allc = [c for cs in P.by_name.values() for c in cs]
    for c in allc:
        if len(c.mro) > 1 and any(k is not c for k in c.mro):
            continue
        if any(c in k.mro and k is not c for k in allc):
            continue
        if c.name.startswith('_') or c.name == 'Event':
            out.add(c)
    P.__dict__['_sa_record_classes'] = out
    return out


def _element_predicates(P):
    """{method name: (class, FunctionDef, formula)} for the methods that exactly one class of the package defines, that no module-level
    function shares a name with, and whose body is a call-free boolean formula over `self` and the parameters: `return E`,
    `if C: return True` + `return False` (and the mirrored / if-else forms).  A call `x.m(a, b)` on any receiver other than self can only
    reach that method, and evaluating it is evaluating the formula with self := x."""
    cached = P.__dict__.get('_sa_elem_preds')
    if cached is not None:
        return cached
    byname = {}
    for cs in P.by_name.values():
        for c in cs:
            for nm, f in c.methods.items():
                byname.setdefault(nm, []).append((c, f))
    modfuncs = set()
    for m in P.mods.values():
        for st in m.tree.body:
            if isinstance(st, ast.FunctionDef):
                modfuncs.add(st.name)
    out = {}
    for nm, lst in byname.items():
        if len(lst) != 1 or nm in modfuncs or nm.startswith('__'):
            continue
        c, f = lst[0]
        if f.decorator_list or f.args.vararg or f.args.kwarg or f.args.kwonlyargs or f.args.defaults or not f.args.args or f.args.args[0].arg != 'self':
            continue
        body = [s_ for s_ in f.body if not (isinstance(s_, ast.Expr) and isinstance(s_.value, ast.Constant))]
        formula = None

        def const(r, v):
            return isinstance(r, ast.Return) and isinstance(r.value, ast.Constant) and r.value.value is v
        if len(body) == 1 and isinstance(body[0], ast.Return) and body[0].value is not None:
            formula = body[0].value
        elif len(body) == 2 and isinstance(body[0], ast.If) and not body[0].orelse and len(body[0].body) == 1:
            if const(body[0].body[0], True) and const(body[1], False):
                formula = body[0].test
            elif const(body[0].body[0], False) and const(body[1], True):
                formula = ast.UnaryOp(op=ast.Not(), operand=body[0].test)
        elif len(body) == 1 and isinstance(body[0], ast.If) and len(body[0].body) == 1 and len(body[0].orelse) == 1:
            if const(body[0].body[0], True) and const(body[0].orelse[0], False):
                formula = body[0].test
            elif const(body[0].body[0], False) and const(body[0].orelse[0], True):
                formula = ast.UnaryOp(op=ast.Not(), operand=body[0].test)
        params = {a.arg for a in f.args.args}
        delegation = False
        if formula is not None and c in _record_classes(P) and isinstance(formula, ast.Call) and len(body) == 1:
            # a record's accessor that forwards to one call (`def get_duration(self): return self.target.get_work_order_duration(self.tag)`):
            # the call itself with self := the record; every parameter is used exactly once, so nothing is evaluated twice or not at all
            inner = [x for x in ast.walk(formula) if isinstance(x, (ast.Call, ast.Lambda, ast.NamedExpr, ast.Await, ast.Yield))]
            uses = {p_: sum(1 for x in ast.walk(formula) if isinstance(x, ast.Name) and x.id == p_) for p_ in params if p_ != 'self'}
            delegation = inner == [formula] and all(v == 1 for v in uses.values())
        if formula is None or not (delegation or isinstance(formula, (ast.Compare, ast.BoolOp, ast.UnaryOp))):
            continue       # a comparison / conjunction: a predicate about the object, not an accessor
        if not delegation and any(isinstance(x, (ast.Call, ast.Lambda, ast.NamedExpr, ast.Await, ast.Yield)) for x in ast.walk(formula)):
            continue
        if any(isinstance(x, ast.Name) and x.id not in params for x in ast.walk(formula)):
            continue
        out[nm] = (c, f, formula)
    P.__dict__['_sa_elem_preds'] = out
    return out


def inline_element_predicates(P, fn, stmts):
    """`r.is_same_order(target, tag)` -> `r.target == target and r.tag == tag` (see _element_predicates): a test a refactoring moved into
    the class of the objects it is about reads, to every rule, like the test written in place."""
    import copy
    preds = _element_predicates(P)
    if not preds:
        return stmts
    names = set(preds)
    if not any(isinstance(x, ast.Call) and isinstance(x.func, ast.Attribute) and x.func.attr in names for st in stmts for x in ast.walk(st)):
        return stmts

    def simple(e):
        return not any(isinstance(x, (ast.Call, ast.Lambda, ast.NamedExpr)) for x in ast.walk(e))

    class Sub(ast.NodeTransformer):
        changed = False

        def visit_FunctionDef(self, n):
            return n

        def visit_Lambda(self, n):
            return n

        def visit_Call(self, n):
            self.generic_visit(n)
            f = n.func
            if not (isinstance(f, ast.Attribute) and f.attr in preds and isinstance(f.value, ast.Name) and f.value.id not in ('self', 'cls')):
                return n
            c, fd, formula = preds[f.attr]
            ps = [a.arg for a in fd.args.args[1:]]
            if any(isinstance(a, ast.Starred) for a in n.args) or len(n.args) > len(ps):
                return n
            bind = dict(zip(ps, n.args))
            for k in n.keywords:
                if k.arg is None or k.arg not in ps or k.arg in bind:
                    return n
                bind[k.arg] = k.value
            if set(bind) != set(ps) or not all(simple(v) for v in bind.values()):
                return n
            bind['self'] = f.value

            class Put(ast.NodeTransformer):
                def visit_Name(self_, x):
                    if x.id in bind:
                        return ast.copy_location(copy.deepcopy(bind[x.id]), n)
                    return x
            new = Put().visit(copy.deepcopy(formula))
            for x in ast.walk(new):
                ast.copy_location(x, n)
            Sub.changed = True
            return new
    out = []
    for st in stmts:
        Sub.changed = False
        new = Sub().visit(copy.deepcopy(st))
        if Sub.changed:
            ast.fix_missing_locations(new)
            out.append(new)
        else:
            out.append(st)
    return out


def _unique_methods(P):
    """{name: (class, FunctionDef)} for method names that exactly one class of the package defines (and no module-level function)"""
    cached = P.__dict__.get('_sa_unique_methods')
    if cached is not None:
        return cached
    byname = {}
    owner = {}
    for cs in P.by_name.values():
        for c in cs:
            for nm, f in c.methods.items():
                byname.setdefault(nm, []).append((c, f))
    modfuncs = {st.name for m in P.mods.values() for st in m.tree.body if isinstance(st, ast.FunctionDef)}
    out = {nm: lst[0] for nm, lst in byname.items() if len(lst) == 1 and nm not in modfuncs and not nm.startswith('__')}
    P.__dict__['_sa_unique_methods'] = out
    return out


def _owner_class(P, fn):
    for cs in P.by_name.values():
        for c in cs:
            for f in c.methods.values():
                if f is fn:
                    return c
            for pr in getattr(c, 'props', {}).values():
                if any(x is fn for x in (pr.values() if isinstance(pr, dict) else [pr])):
                    return c
    return None



def _inline_self_forwarders(P, c, body):
    """statements `self.h(a, ...)` of a method body of class c, where h is a method of c whose whole body is one call statement
    (`def _initialize_asset(self, asset): asset.initialize(self._env)`), are replaced by that call with the parameters substituted: the
    expansion of a foreign tail call binds `self` to another expression, after which such a self-call could no longer be followed"""
    import copy

    def simple(e):
        return isinstance(e, (ast.Name, ast.Constant)) or (isinstance(e, ast.Attribute) and simple(e.value))

    def forward(call):
        if not (isinstance(call.func, ast.Attribute) and isinstance(call.func.value, ast.Name) and call.func.value.id == 'self'):
            return None
        hit = P.lookup(c, call.func.attr)
        if hit is None or hit[1] != 'method':
            return None
        fd = hit[2]
        if fd.decorator_list or fd.args.vararg or fd.args.kwarg or fd.args.kwonlyargs or fd.args.defaults or call.keywords:
            return None
        hb = [s_ for s_ in fd.body if not (isinstance(s_, ast.Expr) and isinstance(s_.value, ast.Constant))]
        if len(hb) != 1 or not isinstance(hb[0], ast.Expr) or not isinstance(hb[0].value, ast.Call):
            return None
        ps = [a.arg for a in fd.args.args[1:]]
        if len(ps) != len(call.args) or not all(simple(a) for a in call.args):
            return None
        if any(isinstance(x, ast.Name) and isinstance(x.ctx, ast.Store) for x in ast.walk(hb[0])) or any(isinstance(x, (ast.Lambda, ast.Await, ast.Yield)) for x in ast.walk(hb[0])):
            return None
        bind = dict(zip(ps, call.args))

        class Put(ast.NodeTransformer):
            def visit_Name(self_, x):
                if x.id in bind and isinstance(x.ctx, ast.Load):
                    return ast.copy_location(copy.deepcopy(bind[x.id]), x)
                return x
        return Put().visit(copy.deepcopy(hb[0].value))

    class Walk(ast.NodeTransformer):
        def visit_Expr(self_, st):
            if isinstance(st.value, ast.Call):
                r = forward(st.value)
                if r is not None:
                    return ast.fix_missing_locations(ast.copy_location(ast.Expr(value=ast.copy_location(r, st.value)), st))
            return st

        def visit_FunctionDef(self_, x):
            return x

        def visit_Lambda(self_, x):
            return x
    return [Walk().visit(copy.deepcopy(s_)) for s_ in body]


def inline_foreign_tail_calls(P, fn, stmts):
    """`return x.m(a)` where x is a local / parameter other than self and m is a method only one class of the
    package (in the same module) defines: replaced by the body of m with self := x and the parameters := the (call-free) arguments, the
    callee's locals renamed.  Dispatch can only reach that method, and in tail position the callee's returns are the caller's, so this
    is an identity on behaviour; it lets rules follow logic that a refactoring moved into the class of a collaborating object
    (`GroupOutput.give_part` -> `last_entered_group._release_part(part)`) exactly as when it was written in place.  One level only."""
    import copy
    table = _unique_methods(P)
    cand = [x for st in stmts for x in ast.walk(st) if isinstance(x, ast.Call) and isinstance(x.func, ast.Attribute) and x.func.attr in table
            and isinstance(x.func.value, ast.Name) and x.func.value.id not in ('self', 'cls')]
    if not cand:
        return stmts
    owner = _owner_class(P, fn)
    if owner is None:
        return stmts
    caller_names = {x.id for x in ast.walk(fn) if isinstance(x, ast.Name)} | {a.arg for a in fn.args.args}

    def simple(e):
        return isinstance(e, (ast.Name, ast.Constant)) or (isinstance(e, ast.Attribute) and simple(e.value))

    def expand(call, mode):
        c, fd = table[call.func.attr]
        if c.mod is not owner.mod or fd is fn or fd.decorator_list or fd.args.vararg or fd.args.kwarg or fd.args.kwonlyargs:
            return None
        if not fd.args.args or fd.args.args[0].arg != 'self':
            return None
        ps = [a.arg for a in fd.args.args[1:]]
        if any(isinstance(a, ast.Starred) for a in call.args) or len(call.args) > len(ps):
            return None
        bind = dict(zip(ps, call.args))
        for k in call.keywords:
            if k.arg is None or k.arg not in ps or k.arg in bind:
                return None
            bind[k.arg] = k.value
        nd = len(fd.args.defaults)
        for p_, d_ in zip(ps[len(ps) - nd:], fd.args.defaults):
            if p_ not in bind and isinstance(d_, ast.Constant):
                bind[p_] = d_
        if set(bind) != set(ps) or not all(simple(v) for v in bind.values()):
            return None
        body = [s_ for s_ in fd.body if not (isinstance(s_, ast.Expr) and isinstance(s_.value, ast.Constant))]
        body = _inline_self_forwarders(P, c, body)
        stored = {x.id for s_ in body for x in ast.walk(s_) if isinstance(x, ast.Name) and isinstance(x.ctx, (ast.Store, ast.Del))}
        if stored & (set(ps) | {'self'}):
            return None
        for s_ in body:
            for x in ast.walk(s_):
                if isinstance(x, (ast.FunctionDef, ast.AsyncFunctionDef, ast.Lambda, ast.ClassDef, ast.Yield, ast.YieldFrom, ast.Global, ast.Nonlocal, ast.Await)):
                    return None
                if isinstance(x, ast.Name) and x.id == 'super':
                    return None
                if mode == 'expr' and isinstance(x, ast.Return):
                    return None
                if mode == 'tail-stmt' and isinstance(x, ast.Return) and x.value is not None and not (isinstance(x.value, ast.Constant) and x.value.value is None):
                    return None
        if mode == 'tail-stmt' and c is not owner:
            return None         # only a hand-over to another instance of the caller's own class (`active_system._register(a)` in a static method of System)
                # one level: the body must not itself contain a call that this pass would expand
        bind = dict(bind, self=call.func.value)
        ren = {nm: f'{nm}__{fd.name.strip("_")}' for nm in stored}
        if set(ren.values()) & caller_names:
            return None

        class Put(ast.NodeTransformer):
            def visit_Name(self_, x):
                if x.id in bind and isinstance(x.ctx, ast.Load):
                    return ast.copy_location(copy.deepcopy(bind[x.id]), x)
                if x.id in ren:
                    return ast.copy_location(ast.Name(id=ren[x.id], ctx=x.ctx), x)
                return x
        out = [ast.fix_missing_locations(Put().visit(copy.deepcopy(s_))) for s_ in body]
        if mode == 'return' and not isinstance(out[-1], ast.Return):
            out.append(ast.copy_location(ast.Return(value=ast.Constant(value=None)), call))
            ast.fix_missing_locations(out[-1])
        return out

    def block(sts, tail=False):
        res, changed = [], False
        for idx_, st in enumerate(sts):
            rep = None
            if isinstance(st, ast.Return) and st.value in cand:
                rep = expand(st.value, 'return')
            elif tail and idx_ == len(sts) - 1 and isinstance(st, ast.Expr) and st.value in cand:
                # the last statement of the function: the callee's (value-less) returns end the caller as well
                rep = expand(st.value, 'tail-stmt')
            if rep is not None:
                res += rep
                changed = True
                continue
            if isinstance(st, (ast.If, ast.For, ast.While, ast.With, ast.Try)):
                new = None
                for fld in ('body', 'orelse', 'finalbody'):
                    sub = getattr(st, fld, None)
                    if sub:
                        b2, ch = block(sub)
                        if ch:
                            new = new or copy.copy(st)
                            setattr(new, fld, b2)
                if isinstance(st, ast.Try):
                    hs, chh = [], False
                    for h in st.handlers:
                        b2, ch = block(h.body)
                        if ch:
                            h2 = copy.copy(h)
                            h2.body = b2
                            hs.append(h2)
                            chh = True
                        else:
                            hs.append(h)
                    if chh:
                        new = new or copy.copy(st)
                        new.handlers = hs
                if new is not None:
                    res.append(new)
                    changed = True
                    continue
            res.append(st)
        return res, changed
    out, ch = block(stmts, tail=True)
    return out if ch else stmts



def inline_foreign_setters(P, fn, stmts):
    """the statement `x.m(a)` where x is a local / parameter other than self, exactly one class of the package defines m, and the body of m
    is nothing but attribute stores on self with call-free right-hand sides over self and the parameters (`def _pause(self, now):
    self.paused_at = now`): replaced by those stores with self := x and the parameters := the call-free arguments.  Dispatch can only
    reach that method and the stores are all it does, so this is an identity on behaviour; state transitions that a refactoring moved
    onto the object they are about (event._pause(now), event._resume(now), event._cancel()) are read as written in place."""
    import copy
    table = _unique_methods(P)

    def setter_body(fd, record=False):
        body = [s_ for s_ in fd.body if not (isinstance(s_, ast.Expr) and isinstance(s_.value, ast.Constant))]
        if not body:
            return None
        params = {a.arg for a in fd.args.args}
        for s_ in body:
            if record and len(body) == 1 and isinstance(s_, ast.Expr) and isinstance(s_.value, ast.Call):
                # a record's method that forwards to one call (`def start(self): self.target.start_work(self.tag)`)
                inner = [x for x in ast.walk(s_.value) if isinstance(x, (ast.Call, ast.Lambda, ast.NamedExpr))]
                uses = {p_: sum(1 for x in ast.walk(s_.value) if isinstance(x, ast.Name) and x.id == p_) for p_ in params if p_ != 'self'}
                if inner == [s_.value] and all(v == 1 for v in uses.values()) and all(x.id in params for x in ast.walk(s_.value) if isinstance(x, ast.Name)):
                    continue
                return None
            if not (isinstance(s_, (ast.Assign, ast.AugAssign))):
                return None
            tg = s_.targets if isinstance(s_, ast.Assign) else [s_.target]
            if not all(isinstance(t, ast.Attribute) and isinstance(t.value, ast.Name) and t.value.id == 'self' for t in tg):
                return None
            if any(isinstance(x, (ast.Call, ast.Lambda, ast.NamedExpr)) for x in ast.walk(s_.value)):
                return None
            if any(isinstance(x, ast.Name) and x.id not in params for x in ast.walk(s_.value)):
                return None
        return body

    def simple(e):
        return isinstance(e, (ast.Name, ast.Constant)) or (isinstance(e, ast.Attribute) and simple(e.value))

    def expand(call):
        f = call.func
        if not (isinstance(f, ast.Attribute) and isinstance(f.value, ast.Name) and f.value.id not in ('self', 'cls') and f.attr in table):
            return None
        c, fd = table[f.attr]
        if fd is fn or fd.decorator_list or fd.args.vararg or fd.args.kwarg or fd.args.kwonlyargs or not fd.args.args or fd.args.args[0].arg != 'self':
            return None
        body = setter_body(fd, record=c in _record_classes(P))
        if body is None:
            return None
        ps = [a.arg for a in fd.args.args[1:]]
        if any(isinstance(a, ast.Starred) for a in call.args) or len(call.args) > len(ps):
            return None
        bind = dict(zip(ps, call.args))
        for k in call.keywords:
            if k.arg is None or k.arg not in ps or k.arg in bind:
                return None
            bind[k.arg] = k.value
        nd = len(fd.args.defaults)
        for p_, d_ in zip(ps[len(ps) - nd:], fd.args.defaults):
            if p_ not in bind and isinstance(d_, ast.Constant):
                bind[p_] = d_
        if set(bind) != set(ps) or not all(simple(v) for v in bind.values()):
            return None
        bind = dict(bind, self=f.value)

        class Put(ast.NodeTransformer):
            def visit_Name(self_, x):
                if x.id in bind:
                    new = copy.deepcopy(bind[x.id])
                    return ast.copy_location(new, x)
                return x
        out = []
        for s_ in body:
            n_ = Put().visit(copy.deepcopy(s_))
            for x in ast.walk(n_):
                ast.copy_location(x, call)
                if isinstance(x, ast.Attribute) and isinstance(x.ctx, ast.Store) and isinstance(x.value, ast.Name):
                    x.value.ctx = ast.Load()
            out.append(ast.fix_missing_locations(n_))
        return out

    def block(sts):
        res, changed = [], False
        for st in sts:
            if isinstance(st, ast.Expr) and isinstance(st.value, ast.Call):
                rep = expand(st.value)
                if rep is not None:
                    res += rep
                    changed = True
                    continue
            if isinstance(st, (ast.If, ast.For, ast.While, ast.With, ast.Try)):
                new = None
                for fld in ('body', 'orelse', 'finalbody'):
                    sub = getattr(st, fld, None)
                    if sub:
                        b2, ch = block(sub)
                        if ch:
                            new = new or copy.copy(st)
                            setattr(new, fld, b2)
                if isinstance(st, ast.Try):
                    hs, chh = [], False
                    for h in st.handlers:
                        b2, ch = block(h.body)
                        if ch:
                            h2 = copy.copy(h)
                            h2.body = b2
                            hs.append(h2)
                            chh = True
                        else:
                            hs.append(h)
                    if chh:
                        new = new or copy.copy(st)
                        new.handlers = hs
                if new is not None:
                    res.append(new)
                    changed = True
                    continue
            res.append(st)
        return res, changed
    if not any(isinstance(x, ast.Call) and isinstance(x.func, ast.Attribute) and x.func.attr in table for st in stmts for x in ast.walk(st)):
        return stmts
    out, ch = block(stmts)
    return out if ch else stmts



def unstar_calls(fn, stmts):
    """`f(a, *t)` where every definition of the local t in the function is a tuple display of the same length k: rewritten to
    `f(a, t[0], ..., t[k-1])` -- the same call, with the arguments visible to the parameter binding of the inliner"""
    import copy
    lens = {}
    for x in ast.walk(fn):
        if isinstance(x, ast.Assign) and len(x.targets) == 1 and isinstance(x.targets[0], ast.Name):
            k = len(x.value.elts) if isinstance(x.value, ast.Tuple) and not any(isinstance(e, ast.Starred) for e in x.value.elts) else None
            lens.setdefault(x.targets[0].id, set()).add(k)
        elif isinstance(x, ast.Name) and isinstance(x.ctx, (ast.Store, ast.Del)):
            lens.setdefault(x.id, set())
    for x in ast.walk(fn):
        if isinstance(x, (ast.For, ast.comprehension, ast.AugAssign, ast.withitem, ast.NamedExpr)):
            for y in ast.walk(x.target if hasattr(x, 'target') else (x.optional_vars or ast.Tuple(elts=[], ctx=ast.Load()))):
                if isinstance(y, ast.Name):
                    lens.setdefault(y.id, set()).add(None)
    ok = {n: next(iter(v)) for n, v in lens.items() if len(v) == 1 and None not in v}
    if not ok or not any(isinstance(x, ast.Starred) and isinstance(x.value, ast.Name) and x.value.id in ok for st in stmts for x in ast.walk(st)):
        return stmts

    class T(ast.NodeTransformer):
        changed = False

        def visit_FunctionDef(self, n):
            return n

        def visit_Lambda(self, n):
            return n

        def visit_Call(self, n):
            self.generic_visit(n)
            if any(isinstance(a, ast.Starred) and isinstance(a.value, ast.Name) and a.value.id in ok for a in n.args):
                args = []
                for a in n.args:
                    if isinstance(a, ast.Starred) and isinstance(a.value, ast.Name) and a.value.id in ok:
                        for i in range(ok[a.value.id]):
                            args.append(ast.copy_location(ast.Subscript(value=ast.copy_location(ast.Name(id=a.value.id, ctx=ast.Load()), a), slice=ast.Constant(i), ctx=ast.Load()), a))
                    else:
                        args.append(a)
                T.changed = True
                return ast.copy_location(ast.Call(func=n.func, args=args, keywords=n.keywords), n)
            return n
    out = []
    for st in stmts:
        T.changed = False
        new = T().visit(copy.deepcopy(st))
        if T.changed:
            out.append(ast.fix_missing_locations(new))
        else:
            out.append(st)
    return out



def _pure_method(P, c, name, seen=()):
    """method `name` of class c (not redefined by a subclass of c in the package) reads state and returns a value: no store to an attribute or
    subscript, no statement-level call, no call other than pure builtins and other pure methods of self"""
    if name in seen or len(seen) > 4:
        return False
    hit = P.lookup(c, name)
    if not hit or hit[1] != 'method':
        return False
    for ks in P.by_name.values():
        for k in ks:
            if k is not hit[0] and hit[0] in k.mro and name in k.methods:
                return False
    fn = hit[2]
    for x in ast.walk(fn):
        if isinstance(x, (ast.Attribute, ast.Subscript)) and isinstance(x.ctx, (ast.Store, ast.Del)):
            return False
        if isinstance(x, (ast.Global, ast.Nonlocal, ast.Yield, ast.YieldFrom, ast.Await, ast.Raise, ast.Try, ast.With, ast.Lambda)):
            return False
        if isinstance(x, ast.Expr) and not isinstance(x.value, ast.Constant):
            return False
        if isinstance(x, ast.Call):
            f = x.func
            if isinstance(f, ast.Name) and f.id in PURE_BUILTINS:
                continue
            if isinstance(f, ast.Attribute) and isinstance(f.value, ast.Name) and f.value.id == 'self' and _pure_method(P, c, f.attr, seen + (name,)):
                continue
            return False
    return True


def inline_pure_predicate_locals(P, fn, stmts):
    """`flag = self._pred(a); ...; return x and not flag` (or `if flag:`) where _pred is a pure method (see _pure_method), flag is assigned once
    and only used as a condition operand later in the same statement list with no store in between: the call is put where the flag is
    read and the assignment dropped.  A pure call commutes with the other reads, so this is an identity; it lets the builder route the
    predicate's own returns to the true / false exits instead of seeing an opaque boolean."""
    import copy
    c = _owner_class(P, fn)
    if c is None:
        return stmts
    stores = {}
    for x in ast.walk(fn):
        if isinstance(x, ast.Name) and isinstance(x.ctx, (ast.Store, ast.Del)):
            stores[x.id] = stores.get(x.id, 0) + 1

    def simple(e):
        return isinstance(e, (ast.Name, ast.Constant)) or (isinstance(e, ast.Attribute) and simple(e.value))

    def cond_uses(st, name):
        """the Name nodes reading `name` in st if every one of them is an operand of a condition / boolean expression, else None"""
        par = {}
        for n in ast.walk(st):
            for ch in ast.iter_child_nodes(n):
                par[ch] = n
        uses = [n for n in ast.walk(st) if isinstance(n, ast.Name) and n.id == name and isinstance(n.ctx, ast.Load)]
        for u in uses:
            p = par.get(u)
            while isinstance(p, ast.UnaryOp) and isinstance(p.op, ast.Not) or isinstance(p, ast.BoolOp):
                u, p = p, par.get(p)
            if not ((isinstance(p, (ast.If, ast.While, ast.IfExp, ast.Assert)) and p.test is u) or (isinstance(p, ast.Return) and p.value is u)):
                return None
        return uses

    def block(sts):
        out, changed, i = [], False, 0
        sts = list(sts)
        while i < len(sts):
            st = sts[i]
            done = False
            if isinstance(st, ast.Assign) and len(st.targets) == 1 and isinstance(st.targets[0], ast.Name) and stores.get(st.targets[0].id) == 1 \
                    and isinstance(st.value, ast.Call) and isinstance(st.value.func, ast.Attribute) and isinstance(st.value.func.value, ast.Name) \
                    and st.value.func.value.id == 'self' and not st.value.keywords and all(simple(a) for a in st.value.args) \
                    and _pure_method(P, c, st.value.func.attr):
                name = st.targets[0].id
                rest = sts[i + 1:]
                # used only in the statements that follow in this list, each use a condition operand, and nothing stored before the last use
                total = sum(1 for x in ast.walk(fn) if isinstance(x, ast.Name) and x.id == name and isinstance(x.ctx, ast.Load))
                found, ok, last = 0, True, -1
                for j, r in enumerate(rest):
                    us = cond_uses(r, name)
                    if us is None:
                        ok = False
                        break
                    if us:
                        found += len(us)
                        last = j
                if ok and found == total and found >= 1:
                    between = rest[:last]
                    head_ok = all(not any(isinstance(x, (ast.Attribute, ast.Subscript)) and isinstance(x.ctx, (ast.Store, ast.Del)) or
                                          (isinstance(x, ast.Call) and not (isinstance(x.func, ast.Name) and x.func.id in PURE_BUILTINS))
                                          for x in ast.walk(b_)) for b_ in between)
                    # within the statement of the last use the flag must be read before anything is stored: conditions only read
                    if head_ok:
                        call = st.value

                        class Put(ast.NodeTransformer):
                            def visit_Name(self_, x):
                                if x.id == name and isinstance(x.ctx, ast.Load):
                                    return ast.copy_location(copy.deepcopy(call), x)
                                return x
                        new_rest = [ast.fix_missing_locations(Put().visit(copy.deepcopy(r))) if any(isinstance(x, ast.Name) and x.id == name for x in ast.walk(r)) else r for r in rest]
                        sts = sts[:i] + new_rest
                        changed = True
                        done = True
            if done:
                continue
            if isinstance(st, (ast.If, ast.For, ast.While, ast.With, ast.Try)):
                new = None
                for fld in ('body', 'orelse', 'finalbody'):
                    sub = getattr(st, fld, None)
                    if sub:
                        b2, ch = block(sub)
                        if ch:
                            new = new or copy.copy(st)
                            setattr(new, fld, b2)
                if new is not None:
                    out.append(new)
                    changed = True
                    i += 1
                    continue
            out.append(st)
            i += 1
        return out, changed
    res, ch = block(stmts)
    return res if ch else stmts



def inline_assigned_predicates(P, fn, stmts):
    """`flag = self._pred(a)` where _pred is a pure method of the class (see _pure_method) whose body is one returned boolean formula over self
    and its parameters: the right-hand side becomes that formula (parameters := the call-free arguments).  The value assigned is the same;
    rules that split on a boolean local by its defining comparison (State._bool_def) see the comparison."""
    import copy
    from .norm import simple_return, subst
    c = _owner_class(P, fn)
    if c is None:
        return stmts

    def simple(e):
        return isinstance(e, (ast.Name, ast.Constant)) or (isinstance(e, ast.Attribute) and simple(e.value))

    def formula_of(call):
        f = call.func
        if not (isinstance(f, ast.Attribute) and isinstance(f.value, ast.Name) and f.value.id == 'self') or call.keywords or not all(simple(a) for a in call.args):
            return None
        if not _pure_method(P, c, f.attr):
            return None
        hit = P.lookup(c, f.attr)
        ret = simple_return(hit[2])
        ps = [a.arg for a in hit[2].args.args][1:]
        if ret is None or len(ps) != len(call.args) or not isinstance(ret, (ast.Compare, ast.BoolOp, ast.UnaryOp)):
            return None
        if any(isinstance(x, ast.Call) for x in ast.walk(ret)):
            return None
        return subst(ret, dict(zip(ps, call.args)))
    out, changed = [], False

    def block(sts):
        nonlocal changed
        res = []
        for st in sts:
            if isinstance(st, ast.Assign) and len(st.targets) == 1 and isinstance(st.targets[0], ast.Name) and isinstance(st.value, ast.Call):
                fm = formula_of(st.value)
                if fm is not None:
                    new = ast.copy_location(ast.Assign(targets=st.targets, value=fm, type_comment=None), st)
                    for x in ast.walk(new.value):
                        ast.copy_location(x, st.value)
                    res.append(ast.fix_missing_locations(new))
                    changed = True
                    continue
            if isinstance(st, (ast.If, ast.For, ast.While, ast.With, ast.Try)):
                new = None
                for fld in ('body', 'orelse', 'finalbody'):
                    sub = getattr(st, fld, None)
                    if sub:
                        before = changed
                        changed = False
                        b2 = block(sub)
                        if changed:
                            new = new or copy.copy(st)
                            setattr(new, fld, b2)
                        changed = changed or before
                res.append(new if new is not None else st)
                continue
            res.append(st)
        return res
    res = block(stmts)
    return res if changed else stmts



def foreign_prepass(P, fn):
    """only the passes that read logic moved onto other objects back in place (for analyses that have their own treatment of aliases)"""
    cached = fn.__dict__.get('_sa_foreign_prepass')
    if cached is not None and cached[0] is fn.body and cached[1] is P:
        return cached[2]
    res = inline_foreign_setters(P, fn, inline_element_predicates(P, fn, fn.body))
    fn.__dict__['_sa_foreign_prepass'] = (fn.body, P, res)
    return res


def norm_func(P, fn):
    """shallow copy of the function whose body is the pre-passed one (for analyses that look at definitions: single_defs, FrameEnv)"""
    cached = fn.__dict__.get('_sa_norm_func')
    if cached is not None and cached[0] is fn.body and cached[1] is P:
        return cached[2]
    import copy
    f2 = copy.copy(fn)
    f2.__dict__.pop('_sa_memo', None)
    f2.body = prepass(P, fn)
    fn.__dict__['_sa_norm_func'] = (fn.body, P, f2)
    return f2




def _first_index_helper(fd):
    """`def h(self, start)` that answers the first index >= start of `self.<L>` whose element satisfies a condition, else None -- written
    as next(generator over range(start, len(L))), as a for over that range, or as a for over enumerate(L[start:], start).
    Returns (text of L, index variable, condition AST in terms of L[index]) or None."""
    import copy
    ps = [a.arg for a in fd.args.args]
    if len(ps) != 2 or ps[0] != 'self' or fd.args.vararg or fd.args.kwarg or fd.decorator_list:
        return None
    start = ps[1]
    body = [x for x in fd.body if not (isinstance(x, ast.Expr) and isinstance(x.value, ast.Constant))]

    def range_of(e):
        if isinstance(e, ast.Call) and isinstance(e.func, ast.Name) and e.func.id == 'range' and len(e.args) == 2 and not e.keywords \
                and isinstance(e.args[0], ast.Name) and e.args[0].id == start and isinstance(e.args[1], ast.Call) and isinstance(e.args[1].func, ast.Name) \
                and e.args[1].func.id == 'len' and len(e.args[1].args) == 1:
            return e.args[1].args[0]
        return None

    def enum_of(e):
        if isinstance(e, ast.Call) and isinstance(e.func, ast.Name) and e.func.id == 'enumerate' and len(e.args) == 2 and not e.keywords \
                and isinstance(e.args[1], ast.Name) and e.args[1].id == start and isinstance(e.args[0], ast.Subscript) and isinstance(e.args[0].slice, ast.Slice) \
                and isinstance(e.args[0].slice.lower, ast.Name) and e.args[0].slice.lower.id == start and e.args[0].slice.upper is None and e.args[0].slice.step is None:
            return e.args[0].value
        return None

    def destructure(target, base):
        """{name: expression} for a loop target bound to `base`"""
        if isinstance(target, ast.Name):
            return {target.id: base}
        if isinstance(target, (ast.Tuple, ast.List)):
            out = {}
            for k, el in enumerate(target.elts):
                if isinstance(el, ast.Starred):
                    return None
                sub = destructure(el, ast.Subscript(value=copy.deepcopy(base), slice=ast.Constant(k), ctx=ast.Load()))
                if sub is None:
                    return None
                out.update(sub)
            return out
        return None

    def put(e, bind):
        class Put(ast.NodeTransformer):
            def visit_Name(self_, x):
                if x.id in bind and isinstance(x.ctx, ast.Load):
                    return copy.deepcopy(bind[x.id])
                return x
        return ast.fix_missing_locations(Put().visit(copy.deepcopy(e)))
    # form A
    if len(body) == 1 and isinstance(body[0], ast.Return) and isinstance(body[0].value, ast.Call) and isinstance(body[0].value.func, ast.Name) \
            and body[0].value.func.id == 'next' and len(body[0].value.args) == 2 and isinstance(body[0].value.args[1], ast.Constant) and body[0].value.args[1].value is None \
            and isinstance(body[0].value.args[0], ast.GeneratorExp) and len(body[0].value.args[0].generators) == 1:
        ge = body[0].value.args[0]
        gen = ge.generators[0]
        if isinstance(gen.target, ast.Name) and isinstance(ge.elt, ast.Name) and ge.elt.id == gen.target.id and len(gen.ifs) == 1 and not gen.is_async:
            L = range_of(gen.iter)
            if L is not None:
                return ast.unparse(L), gen.target.id, gen.ifs[0]
        return None
    # forms B and C
    if len(body) == 2 and isinstance(body[0], ast.For) and not body[0].orelse and isinstance(body[1], ast.Return) \
            and (body[1].value is None or (isinstance(body[1].value, ast.Constant) and body[1].value.value is None)):
        loop = body[0]
        if len(loop.body) == 1 and isinstance(loop.body[0], ast.If) and not loop.body[0].orelse and len(loop.body[0].body) == 1 \
                and isinstance(loop.body[0].body[0], ast.Return) and isinstance(loop.body[0].body[0].value, ast.Name):
            idx = loop.body[0].body[0].value.id
            L = range_of(loop.iter)
            if L is not None and isinstance(loop.target, ast.Name) and loop.target.id == idx:
                return ast.unparse(L), idx, loop.body[0].test
            L = enum_of(loop.iter)
            if L is not None and isinstance(loop.target, ast.Tuple) and len(loop.target.elts) == 2 and isinstance(loop.target.elts[0], ast.Name) \
                    and loop.target.elts[0].id == idx:
                bind = destructure(loop.target.elts[1], ast.Subscript(value=copy.deepcopy(L), slice=ast.Name(id=idx, ctx=ast.Load()), ctx=ast.Load()))
                if bind is not None and idx not in bind:
                    return ast.unparse(L), idx, put(loop.body[0].test, bind)
    return None


def search_scan_to_index_scan(P, fn, stmts):
    """`p = self.h(0); while p is not None: BODY; p = self.h(p)` with h = "first index >= start whose element satisfies C" (above) is the index
    scan `p = 0; while p < len(L): if C(L[p]): BODY else: p += 1` -- the same elements are tested in the same order, BODY runs for the same
    ones, and the position is kept after BODY exactly as the search restarting at p keeps it."""
    import copy
    owner = _owner_class(P, fn)
    if owner is None:
        return stmts

    def helper_call(e, arg_pred):
        if isinstance(e, ast.Call) and isinstance(e.func, ast.Attribute) and isinstance(e.func.value, ast.Name) and e.func.value.id == 'self' \
                and len(e.args) == 1 and not e.keywords and arg_pred(e.args[0]):
            hit = P.lookup(owner, e.func.attr)
            if hit and hit[1] == 'method':
                return _first_index_helper(hit[2])
        # the same helper already inlined (a helper that the pinned tree does not have is inlined at load time, L17)
        if isinstance(e, ast.Call) and isinstance(e.func, ast.Name) and e.func.id == 'next' and len(e.args) == 2 and not e.keywords \
                and isinstance(e.args[0], ast.GeneratorExp) and len(e.args[0].generators) == 1:
            gen = e.args[0].generators[0]
            if isinstance(gen.iter, ast.Call) and isinstance(gen.iter.func, ast.Name) and gen.iter.func.id == 'range' and len(gen.iter.args) == 2 \
                    and arg_pred(gen.iter.args[0]):
                fd = ast.FunctionDef(name='_inlined', args=ast.arguments(posonlyargs=[], args=[ast.arg(arg='self'), ast.arg(arg='_sa_start')], vararg=None,
                                                                       kwonlyargs=[], kw_defaults=[], kwarg=None, defaults=[]),
                                     body=[ast.Return(value=copy.deepcopy(e))], decorator_list=[], returns=None)
                fd.body[0].value.args[0].generators[0].iter.args[0] = ast.Name(id='_sa_start', ctx=ast.Load())
                return _first_index_helper(fd)
        return None

    def same_search(a, b):
        def canon(h):
            Lt, idx, cond = h

            class Ren(ast.NodeTransformer):
                def visit_Name(self_, x):
                    return ast.Name(id='_sa_i', ctx=x.ctx) if x.id == idx else x
            return Lt, ast.unparse(Ren().visit(copy.deepcopy(cond)))
        return canon(a) == canon(b)
    out = list(stmts)
    changed = False
    for k in range(len(out) - 1):
        st, nxt = out[k], out[k + 1]
        if not (isinstance(st, ast.Assign) and len(st.targets) == 1 and isinstance(st.targets[0], ast.Name) and isinstance(nxt, ast.While) and not nxt.orelse and nxt.body):
            continue
        pv = st.targets[0].id
        h0 = helper_call(st.value, lambda a: isinstance(a, ast.Constant) and a.value == 0)
        t = nxt.test
        not_none = isinstance(t, ast.Compare) and len(t.ops) == 1 and isinstance(t.ops[0], (ast.IsNot, ast.NotEq)) and isinstance(t.left, ast.Name) and t.left.id == pv \
            and isinstance(t.comparators[0], ast.Constant) and t.comparators[0].value is None
        last = nxt.body[-1]
        h1 = helper_call(last.value, lambda a: isinstance(a, ast.Name) and a.id == pv) if isinstance(last, ast.Assign) and len(last.targets) == 1 \
            and isinstance(last.targets[0], ast.Name) and last.targets[0].id == pv else None
        if h0 is None or h1 is None or not not_none or ast.unparse(st.value.func) != ast.unparse(last.value.func) or not same_search(h0, h1):
            continue
        body = nxt.body[:-1]
        if any(isinstance(x, (ast.Continue, ast.Break)) or (isinstance(x, ast.Name) and x.id == pv and isinstance(x.ctx, ast.Store)) for b in body for x in ast.walk(b)):
            continue
        Ltext, idx, cond = h0

        class Put(ast.NodeTransformer):
            def visit_Name(self_, x):
                if x.id == idx and isinstance(x.ctx, ast.Load):
                    return ast.copy_location(ast.Name(id=pv, ctx=ast.Load()), x)
                return x
        cond2 = Put().visit(copy.deepcopy(cond))
        L = ast.parse(Ltext, mode='eval').body
        init = ast.copy_location(ast.Assign(targets=[ast.Name(id=pv, ctx=ast.Store())], value=ast.Constant(0)), st)
        inc = ast.AugAssign(target=ast.Name(id=pv, ctx=ast.Store()), op=ast.Add(), value=ast.Constant(1))
        branch = ast.If(test=cond2, body=[copy.deepcopy(b) for b in body], orelse=[inc])
        loop = ast.While(test=ast.Compare(left=ast.Name(id=pv, ctx=ast.Load()), ops=[ast.Lt()],
                                          comparators=[ast.Call(func=ast.Name(id='len', ctx=ast.Load()), args=[L], keywords=[])]),
                         body=[branch], orelse=[])
        for n_ in (branch, inc, loop):
            ast.copy_location(n_, nxt)
        for x in ast.walk(loop):
            if not hasattr(x, 'lineno'):
                ast.copy_location(x, nxt)
        ast.fix_missing_locations(init)
        ast.fix_missing_locations(loop)
        out[k], out[k + 1] = init, loop
        changed = True
    return out if changed else stmts



def inline_self_expression_methods(P, fn, stmts):
    """`x = self.h(a)` / `return self.h(a)` / `self.f = self.h()` where h is a method of the owner class whose whole body is `return <expression>`
    (`def _empty_data_table(self): return {p: [] for p in self._probes}`), called with simple arguments: the statement with that expression in
    place of the call.  Only a call that is the entire right-hand side is replaced, so the order of evaluation is unchanged."""
    import copy
    from .norm import simple_return
    owner = _owner_class(P, fn)
    if owner is None:
        return stmts

    def simple(e):
        return isinstance(e, (ast.Name, ast.Constant)) or (isinstance(e, ast.Attribute) and simple(e.value))

    def expand(call):
        if not (isinstance(call, ast.Call) and isinstance(call.func, ast.Attribute) and isinstance(call.func.value, ast.Name) and call.func.value.id == 'self') or call.keywords:
            return None
        hit = P.lookup(owner, call.func.attr)
        if not hit or hit[1] != 'method':
            return None
        fd = hit[2]
        if fd is fn or fd.decorator_list or fd.args.vararg or fd.args.kwarg or fd.args.kwonlyargs or fd.args.defaults:
            return None
        body = [x for x in fd.body if not (isinstance(x, ast.Expr) and isinstance(x.value, ast.Constant))]
        if len(body) != 1 or not isinstance(body[0], ast.Return) or body[0].value is None:
            return None
        e = body[0].value
        if not isinstance(e, (ast.DictComp, ast.ListComp, ast.Dict, ast.List, ast.Tuple)):
            return None          # only container displays: everything else is followed through the call graph anyway
        ps = [a.arg for a in fd.args.args]
        if not ps or ps[0] != 'self' or len(ps) - 1 != len(call.args) or not all(simple(a) for a in call.args):
            return None
        if any(len(c.methods.get(fd.name, ())) for c in P.subclasses(hit[0]) if c is not hit[0] and fd.name in c.methods):
            return None          # overridden somewhere below: dispatch is not decided
        bind = dict(zip(ps[1:], call.args))
        bound_in_e = {x.id for x in ast.walk(e) if isinstance(x, ast.Name) and isinstance(x.ctx, ast.Store)}
        if bound_in_e & set(bind):
            return None

        class Put(ast.NodeTransformer):
            def visit_Name(self_, x):
                if x.id in bind and isinstance(x.ctx, ast.Load):
                    return ast.copy_location(copy.deepcopy(bind[x.id]), x)
                return x
        r = Put().visit(copy.deepcopy(e))
        for x in ast.walk(r):
            ast.copy_location(x, call)
        return ast.fix_missing_locations(r)
    def pure_noarg(call):
        """`self.h()` with h = `return <expression without calls>` (reads of fields and properties, arithmetic, a tuple or f-string of them):
        a value that can be written in place wherever the call stands"""
        if not (isinstance(call.func, ast.Attribute) and isinstance(call.func.value, ast.Name) and call.func.value.id == 'self') or call.args or call.keywords:
            return None
        hit = P.lookup(owner, call.func.attr)
        if not hit or hit[1] != 'method':
            return None
        fd = hit[2]
        if fd is fn or fd.decorator_list or len(fd.args.args) != 1 or fd.args.vararg or fd.args.kwarg:
            return None
        body = [x for x in fd.body if not (isinstance(x, ast.Expr) and isinstance(x.value, ast.Constant))]
        if len(body) != 1 or not isinstance(body[0], ast.Return) or body[0].value is None:
            return None
        e = body[0].value
        if not isinstance(e, (ast.Tuple, ast.JoinedStr)) or any(isinstance(x, (ast.Call, ast.Lambda, ast.Await, ast.Yield, ast.NamedExpr)) for x in ast.walk(e)):
            return None
        if any(fd.name in c.methods for c in P.subclasses(hit[0]) if c is not hit[0]):
            return None
        r = copy.deepcopy(e)
        for x in ast.walk(r):
            ast.copy_location(x, call)
        return r

    class Pure(ast.NodeTransformer):
        hit = False

        def visit_Call(self_, n):
            self_.generic_visit(n)
            r = pure_noarg(n)
            if r is not None:
                self_.hit = True
                return r
            return n

        def visit_FunctionDef(self_, n):
            return n

        def visit_Lambda(self_, n):
            return n
    def splice(call):
        """`x = self.h(a)` with h = straight-line `t = E1; ...; return E2`: ([t__h = E1, ...], E2') -- evaluated exactly where the call stood"""
        if not (isinstance(call, ast.Call) and isinstance(call.func, ast.Attribute) and isinstance(call.func.value, ast.Name) and call.func.value.id == 'self') or call.keywords:
            return None
        hit = P.lookup(owner, call.func.attr)
        if not hit or hit[1] != 'method' or not call.func.attr.startswith('_'):
            return None
        fd = hit[2]
        if fd is fn or fd.decorator_list or fd.args.vararg or fd.args.kwarg or fd.args.kwonlyargs or fd.args.defaults:
            return None
        body = [x for x in fd.body if not (isinstance(x, ast.Expr) and isinstance(x.value, ast.Constant))]
        if len(body) < 2 or not isinstance(body[-1], ast.Return) or body[-1].value is None or \
                not all(isinstance(b, ast.Assign) and len(b.targets) == 1 and isinstance(b.targets[0], ast.Name) for b in body[:-1]):
            return None
        ps = [a.arg for a in fd.args.args]
        if not ps or ps[0] != 'self' or len(ps) - 1 != len(call.args) or not all(simple(a) for a in call.args):
            return None
        if any(fd.name in c.methods for c in P.subclasses(hit[0]) if c is not hit[0]):
            return None
        if any(isinstance(x, (ast.Lambda, ast.Yield, ast.Await, ast.NamedExpr, ast.ListComp, ast.GeneratorExp, ast.DictComp, ast.SetComp)) for b in body for x in ast.walk(b)):
            return None
        bind = dict(zip(ps[1:], call.args))
        locs = {b.targets[0].id for b in body[:-1]}
        if locs & set(bind):
            return None
        caller_names = {x.id for x in ast.walk(fn) if isinstance(x, ast.Name)}
        ren = {nm: f'{nm}__{fd.name.strip("_")}' for nm in locs}
        if set(ren.values()) & caller_names:
            return None

        class Put(ast.NodeTransformer):
            def visit_Name(self_, x):
                if x.id in bind and isinstance(x.ctx, ast.Load):
                    return ast.copy_location(copy.deepcopy(bind[x.id]), x)
                if x.id in ren:
                    return ast.copy_location(ast.Name(id=ren[x.id], ctx=x.ctx), x)
                return x
        new = []
        for b in body[:-1]:
            nb = Put().visit(copy.deepcopy(b))
            for x in ast.walk(nb):
                ast.copy_location(x, call)
            new.append(ast.fix_missing_locations(nb))
        rv = Put().visit(copy.deepcopy(body[-1].value))
        for x in ast.walk(rv):
            ast.copy_location(x, call)
        return new, ast.fix_missing_locations(rv)
    out, changed = [], False
    for st in stmts:
        st2 = st
        if isinstance(st, (ast.Assign, ast.Return)) and st.value is not None:
            r = expand(st.value)
            if r is not None:
                st2 = copy.copy(st)
                st2.value = r
                changed = True
            else:
                sp = splice(st.value)
                if sp is not None:
                    out.extend(sp[0])
                    st2 = copy.copy(st)
                    st2.value = sp[1]
                    changed = True
        if isinstance(st2, (ast.Expr, ast.Assign, ast.Return, ast.AugAssign)):
            tr = Pure()
            st3 = tr.visit(copy.deepcopy(st2))
            if tr.hit:
                st2 = ast.fix_missing_locations(st3)
                changed = True
        out.append(st2)
    return out if changed else stmts


def desugar_dict_comprehension_stores(fn, stmts):
    """`T = {k: v for k in it}` (one generator, no condition, T a name or an attribute of self) is `T = {}` followed by
    `for k in it: T[k] = v` -- the loop the comprehension stands for, written so that the rules about how a table is filled read it."""
    import copy
    out, changed = [], False
    for st in stmts:
        v = st.value if isinstance(st, ast.Assign) and len(st.targets) == 1 else None
        t = st.targets[0] if v is not None else None
        if isinstance(v, ast.DictComp) and len(v.generators) == 1 and not v.generators[0].ifs and not v.generators[0].is_async \
                and (isinstance(t, ast.Name) or (isinstance(t, ast.Attribute) and isinstance(t.value, ast.Name) and t.value.id == 'self')) \
                and not any(isinstance(x, (ast.Name, ast.Attribute)) and ast.unparse(x) == ast.unparse(t) for x in ast.walk(v)):
            gen = v.generators[0]
            init = ast.copy_location(ast.Assign(targets=[copy.deepcopy(t)], value=ast.copy_location(ast.Dict(keys=[], values=[]), st)), st)
            tl = copy.deepcopy(t)
            for x in ast.walk(tl):
                if hasattr(x, 'ctx'):
                    x.ctx = ast.Load()
            store = ast.Assign(targets=[ast.Subscript(value=tl, slice=copy.deepcopy(v.key), ctx=ast.Store())], value=copy.deepcopy(v.value))
            loop = ast.For(target=copy.deepcopy(gen.target), iter=copy.deepcopy(gen.iter), body=[store], orelse=[], type_comment=None)
            for n_ in (store, loop):
                ast.copy_location(n_, st)
            for x in ast.walk(loop):
                if not hasattr(x, 'lineno'):
                    ast.copy_location(x, st)
            ast.fix_missing_locations(init)
            ast.fix_missing_locations(loop)
            out += [init, loop]
            changed = True
        else:
            out.append(st)
    return out if changed else stmts



def hoist_any_all_tests(fn, stmts):
    """`return any(<generator>)` and `if any(<generator>): ...` (also `all`, also under `not`) are `flag = any(<generator>)` followed by
    `return flag` / `if flag: ...`: the builder turns that assignment into the loop the call stands for (consumed up to the deciding element)"""
    import copy
    counter = [0]

    def is_quant(e):
        return isinstance(e, ast.Call) and isinstance(e.func, ast.Name) and e.func.id in ('any', 'all') and len(e.args) == 1 and not e.keywords \
            and isinstance(e.args[0], ast.GeneratorExp) and len(e.args[0].generators) == 1

    def acts_on_element(e):
        # `return any(d.give_part(p) for d in ...)`: a method of the element is called (the walk does something); a returned pure test over the
        # elements (`return all(self._fits(k, v) for k, v in ...)`) is left as it is -- the predicate rules read that form directly
        gen = e.args[0].generators[0]
        names = {x.id for x in ast.walk(gen.target) if isinstance(x, ast.Name)}
        return any(isinstance(x, ast.Call) and isinstance(x.func, ast.Attribute) and isinstance(x.func.value, ast.Name) and x.func.value.id in names
                   for x in ast.walk(e.args[0].elt))

    def hoist(e, at):
        counter[0] += 1
        nm = f'__quant{counter[0]}_{getattr(at, "lineno", 0)}'
        a = ast.Assign(targets=[ast.Name(id=nm, ctx=ast.Store())], value=e)
        ast.copy_location(a, at)
        ast.fix_missing_locations(a)
        return a, ast.copy_location(ast.Name(id=nm, ctx=ast.Load()), e)

    def block(sts):
        out, changed = [], False
        for st in sts:
            if isinstance(st, ast.Return) and st.value is not None and is_quant(st.value) and acts_on_element(st.value):
                a, ref = hoist(st.value, st)
                r = copy.copy(st)
                r.value = ref
                out += [a, r]
                changed = True
                continue
            if isinstance(st, ast.If):
                t = st.test
                neg = isinstance(t, ast.UnaryOp) and isinstance(t.op, ast.Not)
                q = t.operand if neg else t
                st2 = st
                pre = []
                if is_quant(q):
                    a, ref = hoist(q, st)
                    st2 = copy.copy(st)
                    st2.test = ast.copy_location(ast.UnaryOp(op=ast.Not(), operand=ref), t) if neg else ref
                    pre = [a]
                    changed = True
                b1, c1 = block(st2.body)
                b2, c2 = block(st2.orelse)
                if c1 or c2:
                    if st2 is st:
                        st2 = copy.copy(st)
                    st2.body, st2.orelse = b1, b2
                    changed = True
                out += pre + [st2]
                continue
            if isinstance(st, (ast.For, ast.While, ast.With, ast.Try)):
                st2 = st
                for fld in ('body', 'orelse', 'finalbody'):
                    sub = getattr(st, fld, None)
                    if isinstance(sub, list) and sub and isinstance(sub[0], ast.stmt):
                        r, ch = block(sub)
                        if ch:
                            if st2 is st:
                                st2 = copy.copy(st)
                            setattr(st2, fld, r)
                            changed = True
                out.append(st2)
                continue
            out.append(st)
        return out, changed
    res, ch = block(list(stmts))
    return res if ch else stmts



def split_conditional_returns(fn, stmts):
    """`return a if c else b` is `if c: return a` / `else: return b` (top level of the function body and of its blocks)"""
    import copy

    def block(sts):
        out, changed = [], False
        for st in sts:
            if isinstance(st, ast.Return) and isinstance(st.value, ast.IfExp):
                v = st.value
                r1, r2 = copy.copy(st), copy.copy(st)
                r1.value, r2.value = v.body, v.orelse
                b1, _ = block([r1])
                b2, _ = block([r2])
                i = ast.If(test=v.test, body=b1, orelse=b2)
                ast.copy_location(i, st)
                out.append(i)
                changed = True
                continue
            st2 = st
            if isinstance(st, (ast.If, ast.For, ast.While, ast.With, ast.Try)):
                for fld in ('body', 'orelse', 'finalbody'):
                    sub = getattr(st, fld, None)
                    if isinstance(sub, list) and sub and isinstance(sub[0], ast.stmt):
                        r, ch = block(sub)
                        if ch:
                            if st2 is st:
                                st2 = copy.copy(st)
                            setattr(st2, fld, r)
                            changed = True
            out.append(st2)
        return out, changed
    res, ch = block(list(stmts))
    return res if ch else stmts



def index_filter_scan_to_snapshot_loop(fn, stmts):
    """`i = 0; while i < len(L): x = L[i]; if C(x): ...; del L[i]; ... else: i += 1` -- the in-place filter scan -- is
    `for x in [x for x in L if C(x)]: ...; L.remove(x); ...` when C only reads fields of x that the body does not write (and calls nothing):
    the same elements are processed in the same order, and the element deleted at position i is the first one equal to x that is left."""
    import copy
    out = list(stmts)
    changed = False
    k = 0
    while k + 1 < len(out):
        st, nxt = out[k], out[k + 1]
        k += 1
        if not (isinstance(st, ast.Assign) and len(st.targets) == 1 and isinstance(st.targets[0], ast.Name) and isinstance(st.value, ast.Constant) and st.value.value == 0
                and type(st.value.value) is int and isinstance(nxt, ast.While) and not nxt.orelse and len(nxt.body) == 2):
            continue
        i = st.targets[0].id
        t = nxt.test
        if not (isinstance(t, ast.Compare) and len(t.ops) == 1 and isinstance(t.ops[0], ast.Lt) and isinstance(t.left, ast.Name) and t.left.id == i
                and isinstance(t.comparators[0], ast.Call) and isinstance(t.comparators[0].func, ast.Name) and t.comparators[0].func.id == 'len' and len(t.comparators[0].args) == 1):
            continue
        L = t.comparators[0].args[0]
        Lt = ast.unparse(L)
        a, br = nxt.body
        if not (isinstance(a, ast.Assign) and len(a.targets) == 1 and isinstance(a.targets[0], ast.Name) and ast.unparse(a.value) == f'{Lt}[{i}]' and isinstance(br, ast.If)
                and len(br.orelse) == 1):
            continue
        x = a.targets[0].id
        inc = br.orelse[0]
        if not ((isinstance(inc, ast.AugAssign) and isinstance(inc.target, ast.Name) and inc.target.id == i and isinstance(inc.op, ast.Add)
                 and isinstance(inc.value, ast.Constant) and inc.value.value == 1)):
            continue
        removals = [b for b in br.body if (isinstance(b, ast.Delete) and len(b.targets) == 1 and ast.unparse(b.targets[0]) == f'{Lt}[{i}]') or
                    (isinstance(b, ast.Expr) and isinstance(b.value, ast.Call) and ast.unparse(b.value) == f'{Lt}.pop({i})')]
        if len(removals) != 1:
            continue
        others = [b for b in br.body if b is not removals[0]]
        if any(isinstance(y, ast.Name) and y.id in (i,) for b in others for y in ast.walk(b)) or \
                any(isinstance(y, (ast.Continue, ast.Break, ast.Return)) for b in br.body for y in ast.walk(b)):
            continue
        cond = br.test
        if any(isinstance(y, (ast.Call, ast.Lambda, ast.NamedExpr)) for y in ast.walk(cond)):
            continue
        read = {y.attr for y in ast.walk(cond) if isinstance(y, ast.Attribute) and isinstance(y.value, ast.Name) and y.value.id == x}
        written = {y.attr for b in br.body for y in ast.walk(b) if isinstance(y, ast.Attribute) and isinstance(y.ctx, (ast.Store, ast.Del))}
        names_in_cond = {y.id for y in ast.walk(cond) if isinstance(y, ast.Name)}
        stored_names = {y.id for b in br.body for y in ast.walk(b) if isinstance(y, ast.Name) and isinstance(y.ctx, ast.Store)}
        if read & written or names_in_cond & stored_names:
            continue
        if any(isinstance(y, ast.Name) and y.id in (i, x) for r in out[k + 1:] for y in ast.walk(r)):
            continue
        rm = ast.Expr(value=ast.Call(func=ast.Attribute(value=copy.deepcopy(L), attr='remove', ctx=ast.Load()), args=[ast.Name(id=x, ctx=ast.Load())], keywords=[]))
        ast.copy_location(rm, removals[0])
        new_body = [rm if b is removals[0] else b for b in br.body]
        comp = ast.ListComp(elt=ast.Name(id=x, ctx=ast.Load()),
                            generators=[ast.comprehension(target=ast.Name(id=x, ctx=ast.Store()), iter=copy.deepcopy(L), ifs=[copy.deepcopy(cond)], is_async=0)])
        loop = ast.For(target=ast.Name(id=x, ctx=ast.Store()), iter=comp, body=new_body, orelse=[], type_comment=None)
        ast.copy_location(loop, nxt)
        for y in ast.walk(loop):
            if not hasattr(y, 'lineno'):
                ast.copy_location(y, nxt)
        ast.fix_missing_locations(loop)
        out[k - 1:k + 1] = [loop]
        changed = True
    return out if changed else stmts


def index_while_to_for(fn, stmts):
    """`i = 0; while i < len(L): ... L[i] ...; i += 1` is the loop `for x in L: ... x ...`: a list iterator is exactly such an index walk (it
    re-reads the length at every step, so elements appended during the walk are visited by both).  Rewritten when the index is used for
    nothing but `L[i]`, is advanced by one as the last statement of the body only, and is not read after the loop."""
    import copy
    MUT = {'append', 'insert', 'extend', 'remove', 'pop', 'clear', 'sort', 'reverse'}

    def rewrite(block, rest_of_fn_reads):
        out = []
        k = 0
        changed = False
        while k < len(block):
            st = block[k]
            nxt = block[k + 1] if k + 1 < len(block) else None
            done = False
            if isinstance(st, ast.Assign) and len(st.targets) == 1 and isinstance(st.targets[0], ast.Name) and isinstance(st.value, ast.Constant) and st.value.value == 0 \
                    and type(st.value.value) is int and isinstance(nxt, ast.While) and not nxt.orelse:
                i = st.targets[0].id
                t = nxt.test
                if isinstance(t, ast.Compare) and len(t.ops) == 1 and isinstance(t.ops[0], ast.Lt) and isinstance(t.left, ast.Name) and t.left.id == i \
                        and isinstance(t.comparators[0], ast.Call) and isinstance(t.comparators[0].func, ast.Name) and t.comparators[0].func.id == 'len' \
                        and len(t.comparators[0].args) == 1 and nxt.body:
                    L = t.comparators[0].args[0]
                    Lt = ast.unparse(L)
                    last = nxt.body[-1]
                    inc = (isinstance(last, ast.AugAssign) and isinstance(last.target, ast.Name) and last.target.id == i and isinstance(last.op, ast.Add)
                           and isinstance(last.value, ast.Constant) and last.value.value == 1) or \
                          (isinstance(last, ast.Assign) and len(last.targets) == 1 and isinstance(last.targets[0], ast.Name) and last.targets[0].id == i
                           and ast.unparse(last.value) in (f'{i} + 1', f'1 + {i}'))
                    body = nxt.body[:-1]
                    simpleL = isinstance(L, ast.Name) or (isinstance(L, ast.Attribute) and isinstance(L.value, ast.Name))
                    if inc and body and simpleL:
                        loads, other_uses, mutated, bad = 0, 0, False, False
                        for b in body:
                            for x in ast.walk(b):
                                if isinstance(x, ast.Subscript) and isinstance(x.ctx, ast.Load) and ast.unparse(x.value) == Lt and isinstance(x.slice, ast.Name) and x.slice.id == i:
                                    loads += 1
                                elif isinstance(x, ast.Name) and x.id == i:
                                    other_uses += 1
                                elif isinstance(x, ast.Continue) or isinstance(x, (ast.FunctionDef, ast.Lambda)):
                                    bad = True
                                elif isinstance(x, ast.Call) and isinstance(x.func, ast.Attribute) and x.func.attr in MUT and ast.unparse(x.func.value) == Lt:
                                    mutated = True
                                elif isinstance(x, (ast.Subscript, ast.Name, ast.Attribute)) and isinstance(getattr(x, 'ctx', None), (ast.Store, ast.Del)) \
                                        and ast.unparse(x.value if isinstance(x, ast.Subscript) else x) == Lt:
                                    mutated = True
                        # every Name occurrence of i inside an L[i] was also counted as an "other use": they must balance
                        reads_after = any(isinstance(x, ast.Name) and x.id == i for r in block[k + 2:] + rest_of_fn_reads for x in ast.walk(r))
                        if not bad and loads >= 1 and other_uses == loads and not (mutated and loads > 1) and not reads_after:
                            var = f'__elem_{i}'

                            class Put(ast.NodeTransformer):
                                def visit_Subscript(self_, x):
                                    self_.generic_visit(x)
                                    if isinstance(x.ctx, ast.Load) and ast.unparse(x.value) == Lt and isinstance(x.slice, ast.Name) and x.slice.id == i:
                                        return ast.copy_location(ast.Name(id=var, ctx=ast.Load()), x)
                                    return x
                            new_body = [ast.fix_missing_locations(Put().visit(copy.deepcopy(b))) for b in body]
                            loop = ast.For(target=ast.Name(id=var, ctx=ast.Store()), iter=copy.deepcopy(L), body=new_body, orelse=[], type_comment=None)
                            ast.copy_location(loop, nxt)
                            ast.fix_missing_locations(loop)
                            out.append(loop)
                            k += 2
                            changed = True
                            done = True
            if not done:
                st2 = st
                for fld in ('body', 'orelse', 'finalbody'):
                    sub = getattr(st, fld, None)
                    if isinstance(sub, list) and sub and isinstance(sub[0], ast.stmt) and not isinstance(st, (ast.FunctionDef, ast.ClassDef)):
                        r, ch = rewrite(sub, block[k + 1:] + rest_of_fn_reads)
                        if ch:
                            if st2 is st:
                                st2 = copy.copy(st)
                            setattr(st2, fld, r)
                            changed = True
                out.append(st2)
                k += 1
        return out, changed
    res, ch = rewrite(list(stmts), [])
    return res if ch else stmts


def prepass(P, fn):
    """the behaviour-preserving normalisations applied to a function body before its graph is built (cached on the node)"""
    cached = fn.__dict__.get('_sa_prepass')
    if cached is not None and cached[0] is fn.body and cached[1] is P:
        return cached[2]
    res = inline_assigned_predicates(P, fn, inline_pure_predicate_locals(P, fn, unstar_calls(fn, inline_foreign_setters(P, fn, inline_foreign_tail_calls(P, fn, inline_element_predicates(P, fn, index_while_to_for(fn, search_scan_to_index_scan(P, fn, hoist_any_all_tests(fn, split_conditional_returns(fn, desugar_dict_comprehension_stores(fn, inline_self_expression_methods(P, fn, copy_propagate(fn)))))))))))))
    fn.__dict__['_sa_prepass'] = (fn.body, P, res)
    return res



def own_exprs(node):
    """AST parts evaluated *at* this supergraph node (not nested bodies of compound statements)."""
    a = node.ast
    if a is None or node.kind in ('entry', 'exit', 'raise_exit', 'join', 'call_enter', 'call_exit'):
        return []
    if node.kind == 'for':
        return [a.iter, a.target]
    if node.kind == 'cond':
        return [a]
    if node.kind == 'raise' and isinstance(a, ast.Assert):
        return [a.msg] if a.msg else []
    if isinstance(a, ast.With):
        return [i.context_expr for i in a.items]
    if isinstance(a, (ast.FunctionDef, ast.ClassDef, ast.While)):
        return []
    return [a]


def walk_now(expr):
    """ast.walk that does not descend into deferred bodies (lambda, nested def)"""
    todo = [expr]
    while todo:
        n = todo.pop()
        yield n
        for ch in ast.iter_child_nodes(n):
            if not isinstance(ch, DEFERRED):
                todo.append(ch)


def calls_at(g, node, opaque_only=True):
    """ast.Call nodes evaluated at this supergraph node; by default only those NOT inlined"""
    cache = node.__dict__.setdefault('_sa_calls', {})         # per node of a finished graph (never keyed by id())
    key = (opaque_only, len(g.inlined))
    if key in cache:
        return cache[key]
    out = cache[key] = []
    for e in own_exprs(node):
        for c in walk_now(e):
            if isinstance(c, ast.Call):
                if opaque_only and (node.frame.id, id(c)) in g.inlined:
                    continue
                out.append(_through_frames(c, node.frame))
    return out


_TF_CACHE = {}


def _through_frames(c, frame):
    """a `schedule_event(...)` call made inside an inlined helper whose arguments are parameters of that helper (the action, the event
    type, the time are handed in by the caller): a copy of the call with those arguments replaced by what the caller passed, so that
    every rule sees the call as if it had been written at the call site of the helper"""
    if frame.parent is None or not (isinstance(c.func, ast.Attribute) and c.func.attr == 'schedule_event'):
        return c
    if not any(isinstance(x, ast.Name) and x.id in frame.argmap for a in list(c.args) + [k.value for k in c.keywords] for x in ast.walk(a)):
        return c
    cache = c.__dict__.setdefault('_sa_through_frames', {})       # on the node itself, never keyed by id()
    if frame.id not in cache:
        from .norm import FrameEnv, subst
        env = FrameEnv(frame)
        new = ast.Call(func=c.func, args=[subst(a, env) for a in c.args], keywords=[ast.keyword(arg=k.arg, value=subst(k.value, env)) for k in c.keywords])
        cache[frame.id] = ast.fix_missing_locations(ast.copy_location(new, c))
    return cache[frame.id]


def call_attr(call):
    f = call.func
    if isinstance(f, ast.Attribute):
        return f.attr
    if isinstance(f, ast.Name):
        return f.id
    return None


def is_self_attr(e, name=None):
    return (isinstance(e, ast.Attribute) and isinstance(e.value, ast.Name) and e.value.id == 'self'
            and (name is None or e.attr == name))


def recv_text(call):
    f = call.func
    return ast.unparse(f.value) if isinstance(f, ast.Attribute) else ''
