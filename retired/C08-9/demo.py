'''Two parallel single-slot machines A and B behind one source: whenever both
are free the one that has been idle longest has to get the next part.

    source -> A -> oven (slow) -> sink
           -> B ----------------> sink

A short planned stop of A (shutdown + restore, as a maintenance work order
does) happens while A holds a finished part that the busy oven cannot take
yet. The check replays the 'received_part' records: a machine is idle from
the moment its last part was taken over by the next device.
'''
from simprocesd.model import System
from simprocesd.model.simulation import EventType
from simprocesd.model.factory_floor import PartProcessor, Sink, Source


def main():
    system = System()
    source = Source('source', cycle_time = 4, starting_parts = 5)
    a = PartProcessor('A', upstream = [source], cycle_time = 1)
    b = PartProcessor('B', upstream = [source], cycle_time = 1)
    oven = PartProcessor('oven', upstream = [a], cycle_time = 13)
    sink = Sink('sink', upstream = [oven, b], collect_parts = True)

    # Planned stop of A from t=14 to t=15 (scheduled as separate events as
    # the documentation of shutdown() asks for).
    system.env.schedule_event(14, -1, a.shutdown, EventType.OTHER_LOW_PRIORITY)
    system.env.schedule_event(15, -1, a.restore_functionality, EventType.OTHER_LOW_PRIORITY)

    system.simulate(simulation_duration = 60, print_summary = False)

    data = system.simulation_data['received_part']
    next_device = {'A': 'oven', 'B': 'sink'}
    # part id -> time the part was taken over by the device behind A / B
    left_at = {m: {rec[1]: rec[0] for rec in data.get(next_device[m], [])} for m in next_device}
    received = sorted([(rec[0], m, rec[1]) for m in next_device for rec in data.get(m, [])])
    assert len(received) == 5, f'expected 5 hand-overs to A/B, got {received}'

    def idle_since(machine, now):
        '''Time since which <machine> is free at <now>, None if it holds a part.'''
        since = 0
        for t, m, part_id in received:
            if m != machine or t >= now:
                continue
            left = left_at[machine].get(part_id)
            if left == None or left > now:
                return None
            since = max(since, left)
        return since

    for t, m, part_id in received:
        other = 'B' if m == 'A' else 'A'
        mine, others = idle_since(m, t), idle_since(other, t)
        assert mine != None, f'{m} received part {part_id} at t={t} while holding a part'
        if others != None:
            assert mine <= others, (
                f'at t={t} part {part_id} went to {m} (idle since t={mine}) although {other}'
                f' had been idle longer (since t={others})')
    print('ok')


if __name__ == '__main__':
    main()
