#!/bin/bash
pid=$1
for k in 1 2 3 4 5; do
  src=/tmp/camp/b7-$pid/out/$k
  [ -f $src/patch.diff ] || continue
  dst=/tmp/stageb7/$pid/benign/$((k+24))
  mkdir -p $dst; cp $src/patch.diff $src/notes.md $dst/ 2>/dev/null
  cp /tmp/camp/b7-$pid/out/compare.py /tmp/stageb7/$pid/benign/compare.py
done
