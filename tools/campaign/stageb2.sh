#!/bin/bash
pid=$1
for k in 1 2 3 4 5; do
  src=/tmp/camp/b2-$pid/out/$k
  [ -f $src/patch.diff ] || continue
  dst=/tmp/stageb2/$pid/benign/$((k+4))
  mkdir -p $dst; cp $src/patch.diff $src/notes.md $dst/ 2>/dev/null
  cp /tmp/camp/b2-$pid/out/compare.py /tmp/stageb2/$pid/benign/compare.py
done
