#!/bin/bash
# stage8.sh <PID>  copies /tmp/camp/s8-<PID>/out/<k> -> /tmp/stage8/<PID>/mutants/<k+18>
pid=$1
for k in 1 2 3 4; do
  src=/tmp/camp/s8-$pid/out/$k
  [ -f $src/patch.diff ] || continue
  dst=/tmp/stage8/$pid/mutants/$((k+18))
  mkdir -p $dst; cp $src/patch.diff $src/demo.py $src/notes.md $dst/ 2>/dev/null
done
