#!/bin/bash
# stage5.sh <PID>  copies /tmp/camp/s5-<PID>/out/<k> -> /tmp/stage5/<PID>/mutants/<k+9>
pid=$1
for k in 1 2 3 4; do
  src=/tmp/camp/s5-$pid/out/$k
  [ -f $src/patch.diff ] || continue
  dst=/tmp/stage5/$pid/mutants/$((k+9))
  mkdir -p $dst; cp $src/patch.diff $src/demo.py $src/notes.md $dst/ 2>/dev/null
done
