#!/bin/bash
# stage6.sh <PID>  copies /tmp/camp/s6-<PID>/out/<k> -> /tmp/stage6/<PID>/mutants/<k+12>
pid=$1
for k in 1 2 3 4; do
  src=/tmp/camp/s6-$pid/out/$k
  [ -f $src/patch.diff ] || continue
  dst=/tmp/stage6/$pid/mutants/$((k+12))
  mkdir -p $dst; cp $src/patch.diff $src/demo.py $src/notes.md $dst/ 2>/dev/null
done
