#!/bin/bash
# stage7.sh <PID>  copies /tmp/camp/s7-<PID>/out/<k> -> /tmp/stage7/<PID>/mutants/<k+15>
pid=$1
for k in 1 2 3 4; do
  src=/tmp/camp/s7-$pid/out/$k
  [ -f $src/patch.diff ] || continue
  dst=/tmp/stage7/$pid/mutants/$((k+15))
  mkdir -p $dst; cp $src/patch.diff $src/demo.py $src/notes.md $dst/ 2>/dev/null
done
