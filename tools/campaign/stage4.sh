#!/bin/bash
# stage4.sh <PID>  copies /tmp/camp/s4-<PID>/out/<k> -> /tmp/stage4/<PID>/mutants/<k+6>
pid=$1
for k in 1 2 3 4; do
  src=/tmp/camp/s4-$pid/out/$k
  [ -f $src/patch.diff ] || continue
  dst=/tmp/stage4/$pid/mutants/$((k+6))
  mkdir -p $dst; cp $src/patch.diff $src/demo.py $src/notes.md $dst/ 2>/dev/null
done
