#!/bin/bash
# stage.sh <PID> <offset>   copies /tmp/camp/s3-<PID>/out/<k> -> /tmp/stage/<PID>/mutants/<k+offset>
pid=$1; off=${2:-3}
for k in 1 2 3 4; do
  src=/tmp/camp/s3-$pid/out/$k
  [ -f $src/patch.diff ] || continue
  dst=/tmp/stage/$pid/mutants/$((k+off))
  mkdir -p $dst; cp $src/patch.diff $src/demo.py $src/notes.md $dst/ 2>/dev/null
  echo $dst
done
