#!/bin/bash
# usage: setup.sh <tag> <PID>
set -e
tag=$1; pid=$2
d=/tmp/camp/$tag
mkdir -p $d/out
git -C /repo worktree add -q --detach $d/wt HEAD
/venv/bin/python - "$pid" "$d" <<'P'
import json,sys
pid,d=sys.argv[1:]
for l in open('/verif/properties.jsonl'):
    p=json.loads(l)
    if p['id']==pid:
        open(d+'/PROPERTY.json','w').write(json.dumps(p,indent=1)+'\n')
P
