#!/bin/bash
# stage9.sh <PID>  copies /tmp/camp/s9-<PID>/out/<k> -> /tmp/stage9/<PID>/mutants/<k+21>
pid=$1
for k in 1 2 3; do
  src=/tmp/camp/s9-$pid/out/$k
  [ -f $src/patch.diff ] || continue
  dst=/tmp/stage9/$pid/mutants/$((k+21))
  mkdir -p $dst; cp $src/patch.diff $src/demo.py $src/notes.md $dst/ 2>/dev/null
done
