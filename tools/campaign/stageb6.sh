#!/bin/bash
pid=$1
for k in 1 2 3 4 5; do
  src=/tmp/camp/b6-$pid/out/$k
  [ -f $src/patch.diff ] || continue
  dst=/tmp/stageb6/$pid/benign/$((k+20))
  mkdir -p $dst; cp $src/patch.diff $src/notes.md $dst/ 2>/dev/null
  cp /tmp/camp/b6-$pid/out/compare.py /tmp/stageb6/$pid/benign/compare.py
done
