#!/bin/bash
pid=$1
for k in 1 2 3 4 5; do
  src=/tmp/camp/b-$pid/out/$k
  [ -f $src/patch.diff ] || continue
  dst=/tmp/stage/$pid/benign/$k
  mkdir -p $dst; cp $src/patch.diff $src/notes.md $dst/ 2>/dev/null
  cp /tmp/camp/b-$pid/out/compare.py /tmp/stage/$pid/benign/compare.py
done
