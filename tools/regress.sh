#!/bin/bash
# tools/regress.sh [PROPS]  -- all benign refactorings must be silent, all seeded changes caught (optionally only for the given checks, comma-separated)
cd /verif
export VERIF_PROPS=$1
echo "$1" > /tmp/regress_props.txt
B=$(ls -d benign/C*/ 2>/dev/null | sort -u)
tools/benign_eval.py --jobs 14 --out /tmp/regress_benign.json $B > /tmp/regress_benign.log 2>&1
tools/seed_eval.py --jobs 14 --out /tmp/regress_seeded.json seeded/C* > /tmp/regress_seeded.log 2>&1
/venv/bin/python - <<'P'
import json, os, re
b = json.load(open('/tmp/regress_benign.json'))
seen = set()
al = 0
for r in b:
    d = r['dir']
    m = re.search(r'(C\d\d)[-/](?:benign/)?(\d+)$', d)
    key = m.groups() if m else d
    if key in seen:
        continue
    seen.add(key)
    if r.get('alarms') or r.get('analysis_errors') or not r.get('ok'):
        al += 1
        print('BENIGN ALARM', '-'.join(key) if m else d, r.get('alarms'), r.get('analysis_errors'), r.get('error', ''))
        for p, c in (r.get('checks') or {}).items():
            for f in (c['findings'][:2] + c['errors'][:1]):
                print('      ', p, f[:230])
print(f'benign: {len(seen)} refactorings, {al} with alarms')
s = json.load(open('/tmp/regress_seeded.json'))
seen = set(); miss = 0; own = 0
want = set(filter(None, os.environ.get('VERIF_PROPS', '').split(',')))
for r in s:
    m = re.search(r'(C\d\d)[-/](?:mutants/)?(\d+)$', r['dir'])
    key = m.groups()
    if key in seen:
        continue
    seen.add(key)
    meta = None
    mp = f'/verif/seeded/{key[0]}-{key[1]}/meta.json'
    prev = set(json.load(open(mp)).get('caught_by') or []) if os.path.exists(mp) else set()
    cb = set(r.get('caught_by') or [])
    if want:
        lost = (prev & want) - cb
        if lost:
            print('SEEDED LOST', '-'.join(key), 'previously caught by', sorted(lost), 'now', sorted(cb), r.get('analysis_errors'))
            miss += 1
    else:
        if not cb:
            miss += 1
            print('SEEDED MISSED', '-'.join(key), r.get('analysis_errors'), r.get('error', ''))
        elif key[0] not in cb:
            own += 1
        lost = prev - cb
        if lost and cb:
            print('SEEDED no longer caught by', sorted(lost), '-'.join(key), 'now', sorted(cb))
print(f'seeded: {len(seen)} changes, {miss} missed/lost, {own} caught only by another property\'s check')
P
