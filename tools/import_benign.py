#!/venv/bin/python
"""tools/import_benign.py <result.json> [<result.json> ...]  -- import verified behaviour-preserving refactorings evaluated by
tools/benign_eval.py --verify from a staging directory <stage>/<PID>/benign/<k>/ (with <stage>/<PID>/benign/compare.py):
silent ones go to /verif/benign/<PID>-<k>/, the ones that still raise an alarm to /verif/benign_limits/<PID>-<k>/ (no meta.json there)."""
import json
import pathlib
import re
import shutil
import sys

VERIF = pathlib.Path(__file__).resolve().parent.parent
for f in sys.argv[1:]:
    for r in json.load(open(f)):
        d = pathlib.Path(r['dir'])
        m = re.search(r'(C\d\d)/benign/(\d+)$', str(d))
        if not m or r.get('suite_passed') != 150 or not r.get('compare_identical') or r.get('compare_clean_rc') != 0:
            print('skipped (not verified):', d)
            continue
        pid, k = m.groups()
        alarm = bool(r.get('alarms') or r.get('analysis_errors'))
        dst = VERIF / ('benign_limits' if alarm else 'benign') / f'{pid}-{k}'
        dst.mkdir(parents=True, exist_ok=True)
        for nm in ('patch.diff', 'notes.md'):
            shutil.copy(d / nm, dst / nm)
        shutil.copy(d.parent / 'compare.py', dst / 'compare.py')
        if not alarm:
            notes = (d / 'notes.md').read_text().strip().splitlines()
            files = sorted(set(re.findall(r'^\+\+\+ b/(\S+)', (d / 'patch.diff').read_text(), flags=re.M)))
            meta = {'property': pid, 'kind': 'behaviour-preserving refactoring written by an independent sub-agent that saw only the property text',
                    'files': files, 'summary': ' '.join(notes[:3])[:200],
                    'verified': {'how': 'tools/benign_eval.py --verify: scratch git worktree of /repo HEAD; compare.py (digest of end-to-end runs) on the clean tree; git apply patch.diff; '
                                        'the pinned suite; compare.py on the patched tree (identical output); every ./check <ID> --repo <scratch>',
                                 'suite_passed_with_patch': r['suite_passed'], 'compare_identical': True, 'compare_lines': r.get('compare_lines')},
                    'alarms_when_imported': [], 'analysis_errors_when_imported': [], 'alarms': [], 'analysis_errors': []}
            (dst / 'meta.json').write_text(json.dumps(meta, indent=1) + '\n')
        print(('LIMIT ' if alarm else 'ok    ') + f'{pid}-{k}', r.get('alarms') or '', r.get('analysis_errors') or '')
