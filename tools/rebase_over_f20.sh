#!/bin/bash
# tools/rebase_over_f20.sh <dir> ...   -- a patch written against b0d59dd (before the F20 repair) that touches Environment.run is re-made against
# HEAD: applied on b0d59dd, the repair's own edit (the `finally:` of run() first cancels the run's TERMINATE event when the flag is still lowered)
# inserted at the top of that finally block, diffed against HEAD.  The version before the rebase is kept as patch.orig.diff (or patch.pre-f20.diff
# when that exists already).
for d in "$@"; do
  d=$(realpath $d)
  old=$(mktemp -d /tmp/old_XXXX); new=$(mktemp -d /tmp/new_XXXX)
  git -C /repo archive b0d59dd | tar -x -C $old
  (cd $old && patch -s -p1 < $d/patch.diff) || { echo "OLD APPLY FAILED $d"; continue; }
  find $old -name '*.orig' -delete -o -name '*.rej' -delete
  python3 - $old <<'P'
import re, sys, ast
p = sys.argv[1] + '/simprocesd/model/simulation.py'
s = open(p).read()
t = ast.parse(s)
run = [f for c in t.body if isinstance(c, ast.ClassDef) and c.name == 'Environment' for f in c.body if isinstance(f, ast.FunctionDef) and f.name == 'run'][0]
tries = [x for x in ast.walk(run) if isinstance(x, ast.Try) and x.finalbody and any(isinstance(y, ast.Call) and isinstance(y.func, ast.Attribute) and y.func.attr == 'step' for b in x.body for y in ast.walk(b))]
if not tries:
    tries = [x for x in ast.walk(run) if isinstance(x, ast.Try) and x.finalbody]      # the stepping loop sits in a helper called from the try body
assert len(tries) == 1, 'no try/finally around the stepping loop'
first = tries[0].finalbody[0]
lines = s.split('\n')
ind = ' ' * first.col_offset
flag = '_terminated'
block = [f'{ind}if not self.{flag}:',
         f'{ind}    # The run was ended by an exception. Its TERMINATE Event',
         f'{ind}    # must not stay behind and end a later run early.',
         f'{ind}    for event in self._events:',
         f'{ind}        if event.action == self._terminate:',
         f'{ind}            event.cancelled = True']
k = first.lineno - 1
while k > 0 and lines[k - 1].strip().startswith('#'):
    k -= 1
lines[k:k] = block
s = '\n'.join(lines)
ast.parse(s)
open(p, 'w').write(s)
print('inserted at line', k + 1)
P
  [ $? -eq 0 ] || { echo "REWRITE FAILED $d"; rm -rf $old $new; continue; }
  git clone -q /repo $new/r
  rsync -a -c --delete --exclude .git $old/ $new/r/
  (cd $new/r && git add -A >/dev/null && git diff --cached HEAD > $new/patch.diff)
  if [ -f $d/patch.orig.diff ]; then cp $d/patch.diff $d/patch.pre-f20.diff; else cp $d/patch.diff $d/patch.orig.diff; fi
  cp $new/patch.diff $d/patch.diff
  printf "\n\n(Rebased onto the tree that contains the repair F20 (a run ended by an exception cancels its own TERMINATE event), which touches the same lines; the version before this rebase is kept next to it.)\n" >> $d/notes.md
  echo "rebased $d: $(grep -c '^[+-]' $d/patch.diff) changed lines"
  rm -rf $old $new
done
