#!/venv/bin/python
"""Regenerate MANIFEST.json from the rule modules that exist under sa/rules.
A property is claimed iff its rule module exists and defines CLAIM; everything else is
listed under not_applicable with its reason."""
import importlib
import json
import os
import pathlib
import sys

VERIF = pathlib.Path(__file__).resolve().parent.parent
sys.path.insert(0, str(VERIF))
sys.dont_write_bytecode = True

NOT_APPLICABLE = {
    'C04': ('Exact numerical equality between the event times of a run and a max-plus recurrence for all line shapes and '
            'parameters: no clause of it is visible in the shape of the code that is not already an obligation of C03/C05/C06, '
            'and the one mechanism it names for itself (relative order of event kinds) is not a necessary condition '
            '(swapping PASS_PART and FINISH_PROCESSING changed 0 of 25 sampled serial-line runs), so a static rule on it would '
            'alarm on behaviour-preserving changes; deciding the recurrence needs execution or a solver (another family). '
            'See DESIGN.md section 4, C04.'),
}
PENDING = 'checker not built yet in this session (design in DESIGN.md section 4); not claimed until its check exists'

props = [json.loads(l) for l in open(VERIF / 'properties.jsonl')]
checks, na = [], []
for p in props:
    pid = p['id']
    mod = None
    if (VERIF / 'sa' / 'rules' / f'{pid.lower()}.py').exists():
        mod = importlib.import_module(f'sa.rules.{pid.lower()}')
    if mod is not None and getattr(mod, 'CLAIM', None):
        c = mod.CLAIM
        checks.append({
            'property_id': pid,
            'quick_cmd': f'./check {pid} --tier quick',
            'thorough_cmd': f'./check {pid} --tier thorough',
            'evidence_file': f'/verif/evidence/{pid}.json',
            'replay_cmd_template': './check ' + pid + ' --explain {path}',
            'engine': 'sa',
            'level_claimed': {'category': 'other', 'text': c['level_text'], 'design_ref': f'DESIGN.md section 4, {pid}'},
            'level_note': c['level_note'],
            'technique': c['technique'],
        })
    else:
        na.append({'property_id': pid, 'reason': NOT_APPLICABLE.get(pid, PENDING)})

manifest = {
    'version': 1,
    'setup_cmd': '/venv/bin/python -m compileall -q sa selftest tools && /venv/bin/python -c "import ast, json"',
    'hooks': {
        'guard': 'SIMPROCESD_VERIF',
        'enable': 'none needed: the checks parse /repo sources and never import or run them; the guard is unused',
        'baseline_off_cmd': 'cd /repo && /venv/bin/python -m pytest -ra -q -p no:cacheprovider --timeout=900 --continue-on-collection-errors',
        'source_commits': [],
        'add_only': True,
    },
    'engines': [{
        'name': 'sa',
        'path': '/verif/sa',
        'serves_properties': [c['property_id'] for c in checks],
        'kind_free_text': 'repository-specific static analysis on the Python ast: program model with C3 MRO, per-entry-point '
                          'control-flow supergraphs with context-sensitive inlining, path-sensitive typestate exploration, '
                          'linear normal forms, call-site/attribute-store inventories',
    }],
    'checks': checks,
    'not_applicable': na,
    'notes': 'Static analysis only: nothing under /repo is imported or executed by a check. Exit 0 = all structural obligations of the '
             'property hold on the current working tree; exit 1 + VIOLATION line = an obligation fails at a named construct; exit 2 + '
             'ANALYSIS-ERROR = the analysis could not be carried out. Twenty genuine defects were repaired in /repo as fix: commits and are '
             'listed as fixed: entries in known_findings.json (they suppress nothing); two are recorded there as known and printed as KNOWN-FINDING lines by checks that exit 0: F21 (a PartBatcher inside a Group, C08.12) '
             'and F22 (a run started from inside an event action ends the run around it, C01.15; candidate repair in findings/F22_repair_candidate.diff).',
}
(VERIF / 'MANIFEST.json').write_text(json.dumps(manifest, indent=1) + '\n')
print(f'{len(checks)} claimed, {len(na)} not claimed')
