#!/venv/bin/python
"""tools/seeded_under_identities.py [--jobs N] [--transforms a,b,..] [SEEDED_DIR...]
Every seeded change must still be reported by the check of its own property after a mechanical whole-package identity (tools/mech_probe.py)
has been applied on top of it: the normalisations that make the checks blind to idiom must not make them blind to the defect.
Prints one line per (change, transformation) that is no longer reported; writes /tmp/seeded_under_identities.json."""
import ast
import concurrent.futures
import importlib.util
import json
import os
import pathlib
import re
import shutil
import subprocess
import sys
import tempfile

VERIF = pathlib.Path(__file__).resolve().parent.parent
PY = '/venv/bin/python'
spec = importlib.util.spec_from_file_location('mech_probe', VERIF / 'tools' / 'mech_probe.py')
mp = importlib.util.module_from_spec(spec)
spec.loader.exec_module(mp)


def one(job):
    sd, nm = job
    pid = re.match(r'(C\d\d)-', sd.name).group(1)
    d = pathlib.Path(tempfile.mkdtemp(prefix='sui_'))
    try:
        subprocess.run(f'git -C /repo archive HEAD simprocesd | tar -x -C {d}', shell=True, check=True)
        r = subprocess.run(['patch', '-p1', '-s', '-i', str(sd / 'patch.diff')], cwd=d, capture_output=True, text=True)
        if r.returncode != 0:
            return sd.name, nm, 'patch-failed'
        for p in sorted((d / 'simprocesd').rglob('*.py')):
            if 'tests' in p.parts or 'examples' in p.parts:
                continue
            try:
                t = mp.TRANSFORMS[nm]().visit(ast.parse(p.read_text()))
                ast.fix_missing_locations(t)
                p.write_text(ast.unparse(t) + '\n')
            except SyntaxError:
                return sd.name, nm, 'syntax'
        env = dict(os.environ, VERIF_EVIDENCE_DIR=str(d / '_ev'), PYTHONDONTWRITEBYTECODE='1')
        c = subprocess.run([PY, str(VERIF / 'check'), pid, '--repo', str(d)], cwd=VERIF, env=env, capture_output=True, text=True, timeout=900)
        return sd.name, nm, {0: 'silent', 1: 'reported', 2: 'analysis-error'}.get(c.returncode, str(c.returncode))
    finally:
        shutil.rmtree(d, ignore_errors=True)


def main():
    args = sys.argv[1:]
    jobs_n = 14
    names = ['annotate-fields', 'rename-locals', 'invert-if-else', 'keyword-arguments', 'conditional-expressions']
    dirs = []
    while args:
        a = args.pop(0)
        if a == '--jobs':
            jobs_n = int(args.pop(0))
        elif a == '--transforms':
            names = args.pop(0).split(',')
        else:
            dirs.append(pathlib.Path(a).resolve())
    if not dirs:
        dirs = sorted(p for p in (VERIF / 'seeded').iterdir() if p.is_dir() and re.match(r'C\d\d-\d+$', p.name))
    jobs = [(d, nm) for d in dirs for nm in names]
    res = {}
    with concurrent.futures.ThreadPoolExecutor(jobs_n) as ex:
        for name, nm, verdict in ex.map(one, jobs):
            res.setdefault(name, {})[nm] = verdict
            if verdict != 'reported':
                print(f'{name:10s} {nm:26s} {verdict}')
                sys.stdout.flush()
    total = sum(len(v) for v in res.values())
    rep = sum(1 for v in res.values() for x in v.values() if x == 'reported')
    print(f'{rep} / {total} (change, identity) pairs still reported by the check of the change\'s own property')
    json.dump(res, open('/tmp/seeded_under_identities.json', 'w'), indent=1)


if __name__ == '__main__':
    main()
