#!/bin/bash
# usage: tools/with_patch.sh <patch.diff> <command with {} for the scratch tree>   -- scratch copy of /repo (package only), removed afterwards
p=$(realpath "$1"); shift
d=$(mktemp -d /tmp/wp_XXXXXX)
cp -r /repo/simprocesd "$d/" && (cd "$d" && patch -s -p1 < "$p") || { echo "PATCH FAILED"; rm -rf "$d"; exit 3; }
cmd="${*//\{\}/$d}"
bash -c "$cmd"; rc=$?
rm -rf "$d"
exit $rc
