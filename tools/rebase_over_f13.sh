#!/bin/bash
# tools/rebase_over_f13.sh <dir> ...   -- a patch written against bbda9f4 (before the F13 repair) that touches the repaired lines of maintainer.py is
# re-made against HEAD: applied on bbda9f4, the repair's own edit (target names through Maintainer._get_target_name) applied on top, diffed against HEAD.
# The version before the rebase is kept as patch.orig.diff.
set -e
for d in "$@"; do
  d=$(realpath $d)
  old=$(mktemp -d /tmp/old_XXXX); new=$(mktemp -d /tmp/new_XXXX)
  git -C /repo archive bbda9f4 | tar -x -C $old
  (cd $old && patch -s -p1 < $d/patch.diff)
  find $old -name '*.orig' -delete -o -name '*.rej' -delete
  python3 - $old <<'P'
import re, sys, ast
p = sys.argv[1] + '/simprocesd/model/factory_floor/maintainer.py'
s = open(p).read()
s = re.sub(r"\{(\w+)\.target\.name\}", r"{Maintainer._get_target_name(\1)}", s)
s = s.replace("{target.name}", "{Maintainer._get_target_name(request)}")
old = """    def _record_work_order_datapoint(self, list_label, request):
        name = getattr(request.target, 'name', 'N/A')
"""
new = """    @staticmethod
    def _get_target_name(request):
        # Maintainable targets are not required to have a name.
        return getattr(request.target, 'name', 'N/A')

    def _record_work_order_datapoint(self, list_label, request):
        name = Maintainer._get_target_name(request)
"""
if old in s:
    s = s.replace(old, new)
else:
    print('NOTE: record helper has another shape in', p)
ast.parse(s)
open(p, 'w').write(s)
P
  git clone -q /repo $new/r
  rsync -a -c --delete --exclude .git $old/ $new/r/
  (cd $new/r && git add -A >/dev/null && git diff --cached HEAD > $new/patch.diff)
  [ -f $d/patch.orig.diff ] || cp $d/patch.diff $d/patch.orig.diff
  cp $new/patch.diff $d/patch.diff
  printf "\n\n(Rebased mechanically onto the tree that contains the repair F13 (target names read through Maintainer._get_target_name), which touches the same lines; the version before this rebase is patch.orig.diff.)\n" >> $d/notes.md
  echo "rebased $d: $(grep -c '^[+-]' $d/patch.diff) changed lines; leftovers: $(grep -c '^+.*target\.name' $d/patch.diff)"
  rm -rf $old $new
done
