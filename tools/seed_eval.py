#!/venv/bin/python
"""Evaluate seeded changes against the checks.

usage: tools/seed_eval.py [--verify] [--jobs N] [--out FILE] DIR...
Each DIR holds patch.diff (+ demo.py, meta.json / notes.md).  For every DIR a scratch copy of /repo's HEAD (git archive) is made
under a temporary directory (outside /repo and /verif), the patch is applied there, optionally the claims about the
change are verified (suite still passes, demo fails with / passes without the patch), and every check is run against the
scratch tree with `./check <ID> --repo <scratch>`; the worktree is removed afterwards.  Nothing touches /repo's tree.
"""
import argparse
import concurrent.futures
import json
import os
import pathlib
import re
import shutil
import subprocess
import sys
import tempfile

VERIF = pathlib.Path(__file__).resolve().parent.parent
PY = '/venv/bin/python'


def sh(cmd, cwd=None, env=None, timeout=900):
    e = dict(os.environ)
    e.update(env or {})
    p = subprocess.run(cmd, cwd=cwd, env=e, shell=isinstance(cmd, str), capture_output=True, text=True, timeout=timeout)
    return p.returncode, p.stdout + p.stderr


def props():
    if os.environ.get('VERIF_PROPS'):
        return sorted(os.environ['VERIF_PROPS'].split(','))
    return sorted(p.stem.upper() for p in (VERIF / 'sa' / 'rules').glob('c[0-9]*.py'))


def evaluate(d, verify):
    d = pathlib.Path(d).resolve()
    out = {'dir': str(d), 'ok': True}
    tmp = pathlib.Path(tempfile.mkdtemp(prefix='seedeval_'))
    wt = tmp / 'wt'
    try:
        # scratch copy of /repo's HEAD (git archive: committed state only, no worktree registration, so parallel runs cannot collide)
        wt.mkdir()
        rc, o = sh(f'git -C /repo archive HEAD | tar -x -C {wt}')
        if rc:
            return {**out, 'ok': False, 'error': 'archive: ' + o}
        env = {'PYTHONPATH': str(wt), 'PYTHONDONTWRITEBYTECODE': '1'}
        demo = d / 'demo.py'
        if verify and demo.exists():
            rc, o = sh([PY, str(demo)], cwd=wt, env=env, timeout=300)
            out['demo_clean_rc'] = rc
        rc, o = sh(['patch', '-s', '-p1', '-i', str(d / 'patch.diff')], cwd=wt)
        if rc:
            return {**out, 'ok': False, 'error': 'apply: ' + o}
        out['files'] = sorted(set(re.findall(r'^\+\+\+ b/(\S+)', (d / 'patch.diff').read_text(), re.M)))
        if verify:
            rc, o = sh([PY, '-m', 'pytest', '-q', '-p', 'no:cacheprovider', '--timeout=900', '--continue-on-collection-errors', '-n', '0'],
                       cwd=wt, env=env, timeout=1200)
            m = re.search(r'(\d+) passed', o)
            out['suite_passed'] = int(m.group(1)) if m else 0
            out['suite_failed'] = bool(re.search(r'\d+ failed', o))
            if demo.exists():
                rc, o = sh([PY, str(demo)], cwd=wt, env=env, timeout=300)
                out['demo_patched_rc'] = rc
                out['demo_patched_tail'] = o.strip().splitlines()[-1][:300] if o.strip() else ''
        ev = tmp / 'ev'
        ev.mkdir()
        res = {}
        for pid in props():
            rc, o = sh([PY, str(VERIF / 'check'), pid, '--repo', str(wt)], cwd=VERIF, env={'VERIF_EVIDENCE_DIR': str(ev)}, timeout=600)
            findings = [l.strip()[8:] for l in o.splitlines() if l.strip().startswith('FINDING ')]
            errs = [l.strip() for l in o.splitlines() if l.startswith('ANALYSIS-ERROR')]
            if rc:
                res[pid] = {'rc': rc, 'findings': [f[:400] for f in findings[:8]], 'n_findings': len(findings), 'errors': errs[:3]}
        out['checks'] = res
        out['caught_by'] = sorted(p for p, r in res.items() if r['rc'] == 1)
        out['analysis_errors'] = sorted(p for p, r in res.items() if r['rc'] == 2)
    except Exception as e:     # noqa: BLE001
        out['ok'] = False
        out['error'] = repr(e)
    finally:
        shutil.rmtree(tmp, ignore_errors=True)
    return out


def main():
    ap = argparse.ArgumentParser()
    ap.add_argument('dirs', nargs='+')
    ap.add_argument('--verify', action='store_true')
    ap.add_argument('--jobs', type=int, default=12)
    ap.add_argument('--out')
    a = ap.parse_args()
    results = []
    with concurrent.futures.ThreadPoolExecutor(a.jobs) as ex:
        for r in ex.map(lambda d: evaluate(d, a.verify), a.dirs):
            results.append(r)
            tag = ','.join(r.get('caught_by', [])) or '-'
            extra = ''
            if a.verify:
                extra = f" suite={r.get('suite_passed')} demo(clean/patched)={r.get('demo_clean_rc')}/{r.get('demo_patched_rc')}"
            print(f"{r['dir']}: caught_by={tag} errors={','.join(r.get('analysis_errors', [])) or '-'}{extra} {r.get('error', '')}", flush=True)
    if a.out:
        pathlib.Path(a.out).write_text(json.dumps(results, indent=1) + '\n')


if __name__ == '__main__':
    main()
