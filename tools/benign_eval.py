#!/venv/bin/python
"""Evaluate behaviour-preserving refactorings against the checks (they must stay silent).

usage: tools/benign_eval.py [--verify] [--jobs N] [--out FILE] DIR...
Each DIR holds patch.diff (+ notes.md, and optionally compare.py next to it or one level up: a program printing a deterministic digest
of end-to-end runs).  For every DIR a scratch copy of /repo's HEAD (git archive) is made under a temporary directory (outside /repo and
/verif), with --verify compare.py is run on the clean tree, the patch is applied, the pinned suite and compare.py are run on the patched
tree (150 passed, identical digest), and every check is run against the scratch tree; the worktree is removed afterwards.
"""
import argparse
import concurrent.futures
import json
import pathlib
import re
import shutil
import sys
import tempfile

sys.path.insert(0, str(pathlib.Path(__file__).resolve().parent))
from seed_eval import sh, props, VERIF, PY   # noqa: E402


def evaluate(d, verify):
    d = pathlib.Path(d).resolve()
    out = {'dir': str(d), 'ok': True}
    tmp = pathlib.Path(tempfile.mkdtemp(prefix='benigneval_'))
    wt = tmp / 'wt'
    try:
        # scratch copy of /repo's HEAD (git archive: committed state only, no worktree registration, so parallel runs cannot collide)
        wt.mkdir()
        rc, o = sh(f'git -C /repo archive HEAD | tar -x -C {wt}')
        if rc:
            return {**out, 'ok': False, 'error': 'archive: ' + o}
        env = {'PYTHONPATH': str(wt), 'PYTHONDONTWRITEBYTECODE': '1', 'MPLBACKEND': 'Agg'}
        cmp_ = next((p for p in (d / 'compare.py', d.parent / 'compare.py') if p.exists()), None)
        clean = None
        if verify and cmp_:
            rc, clean = sh([PY, str(cmp_)], cwd=wt, env=env, timeout=900)
            out['compare_clean_rc'] = rc
        rc, o = sh(['patch', '-s', '-p1', '-i', str(d / 'patch.diff')], cwd=wt)
        if rc:
            return {**out, 'ok': False, 'error': 'apply: ' + o}
        out['files'] = sorted(set(re.findall(r'^\+\+\+ b/(\S+)', (d / 'patch.diff').read_text(), re.M)))
        if verify:
            rc, o = sh([PY, '-m', 'pytest', '-q', '-p', 'no:cacheprovider', '--timeout=900', '--continue-on-collection-errors', '-n', '0'],
                       cwd=wt, env=env, timeout=1200)
            m = re.search(r'(\d+) passed', o)
            out['suite_passed'] = int(m.group(1)) if m else 0
            out['suite_failed'] = bool(re.search(r'\d+ failed', o))
            if cmp_:
                rc, patched = sh([PY, str(cmp_)], cwd=wt, env=env, timeout=900)
                out['compare_patched_rc'] = rc
                # (object addresses and source line numbers in the interpreter's 'Exception ignored in ...' tracebacks on stderr are not behaviour)
                _norm = lambda t: re.sub(r', line \d+, in ', ', line ?, in ', re.sub(r' at 0x[0-9a-fA-F]+', ' at 0x?', t or ''))
                out['compare_identical'] = (_norm(patched) == _norm(clean))
                out['compare_lines'] = len((clean or '').splitlines())
        ev = tmp / 'ev'
        ev.mkdir()
        res = {}
        for pid in props():
            rc, o = sh([PY, str(VERIF / 'check'), pid, '--repo', str(wt)], cwd=VERIF, env={'VERIF_EVIDENCE_DIR': str(ev)}, timeout=600)
            findings = [l.strip()[8:] for l in o.splitlines() if l.strip().startswith('FINDING ')]
            errs = [l.strip() for l in o.splitlines() if l.startswith('ANALYSIS-ERROR')]
            if rc:
                res[pid] = {'rc': rc, 'findings': [f[:500] for f in findings[:8]], 'n_findings': len(findings), 'errors': errs[:3]}
        out['checks'] = res
        out['alarms'] = sorted(p for p, r in res.items() if r['rc'] == 1)
        out['analysis_errors'] = sorted(p for p, r in res.items() if r['rc'] == 2)
    except Exception as e:     # noqa: BLE001
        out['ok'] = False
        out['error'] = repr(e)
    finally:
        shutil.rmtree(tmp, ignore_errors=True)
    return out


def main():
    ap = argparse.ArgumentParser()
    ap.add_argument('dirs', nargs='+')
    ap.add_argument('--verify', action='store_true')
    ap.add_argument('--jobs', type=int, default=8)
    ap.add_argument('--out')
    a = ap.parse_args()
    results = []
    with concurrent.futures.ThreadPoolExecutor(a.jobs) as ex:
        for r in ex.map(lambda d: evaluate(d, a.verify), a.dirs):
            results.append(r)
            extra = ''
            if a.verify:
                extra = f" suite={r.get('suite_passed')} compare(clean rc/patched rc/identical/lines)={r.get('compare_clean_rc')}/{r.get('compare_patched_rc')}/{r.get('compare_identical')}/{r.get('compare_lines')}"
            print(f"{r['dir']}: alarms={','.join(r.get('alarms', [])) or '-'} errors={','.join(r.get('analysis_errors', [])) or '-'}{extra} {r.get('error', '')}", flush=True)
            for p, c in (r.get('checks') or {}).items():
                for f in c['findings'][:3] + c['errors'][:2]:
                    print(f'     {p}: {f[:300]}', flush=True)
    if a.out:
        pathlib.Path(a.out).write_text(json.dumps(results, indent=1) + '\n')


if __name__ == '__main__':
    main()
