#!/venv/bin/python
"""Refresh the recorded outcome in seeded/*/meta.json (caught_by, first_findings) and benign/*/meta.json (alarms) from the result files
written by tools/regress.sh (/tmp/regress_seeded.json, /tmp/regress_benign.json)."""
import json
import pathlib
import re

VERIF = pathlib.Path(__file__).resolve().parent.parent
marker = pathlib.Path('/tmp/regress_props.txt')
if not marker.exists() or marker.read_text().strip():
    raise SystemExit('the last tools/regress.sh run was restricted to some checks (or did not record what it ran): not refreshing the recorded outcomes from it')
for kind, f in (('seeded', '/tmp/regress_seeded.json'), ('benign', '/tmp/regress_benign.json')):
    for r in json.load(open(f)):
        m = re.search(r'/verif/' + kind + r'/(C\d\d-\d+)/?$', r['dir'])
        if not m or not r.get('ok'):
            continue
        mp = VERIF / kind / m.group(1) / 'meta.json'
        meta = json.load(open(mp))
        if kind == 'seeded':
            meta['caught_by'] = r.get('caught_by')
            meta['first_findings'] = {p: c['findings'][:2] for p, c in (r.get('checks') or {}).items() if c['rc'] == 1}
        else:
            meta['alarms'] = r.get('alarms')
            meta['analysis_errors'] = r.get('analysis_errors')
        mp.write_text(json.dumps(meta, indent=1) + '\n')
print('refreshed')
