#!/venv/bin/python
"""Copy verified seeded changes (patch.diff, demo.py, notes.md) into /verif/seeded/<id>/ and write meta.json from a seed_eval --verify result."""
import json
import pathlib
import re
import shutil
import sys

VERIF = pathlib.Path(__file__).resolve().parent.parent
res = json.load(open(sys.argv[1]))
kind = sys.argv[2] if len(sys.argv) > 2 else 'mutants'
for r in res:
    d = pathlib.Path(r['dir'])
    m = re.search(r'/(C\d\d)/' + kind + r'/(\d+)$', str(d))
    if not m or not r.get('ok'):
        print('skip', d, r.get('error'))
        continue
    pid, k = m.group(1), m.group(2)
    if kind == 'mutants':
        if not (r.get('suite_passed') == 150 and not r.get('suite_failed') and r.get('demo_clean_rc') == 0 and r.get('demo_patched_rc') not in (0, None)):
            print('NOT VERIFIED', d, r.get('suite_passed'), r.get('demo_clean_rc'), r.get('demo_patched_rc'))
            continue
        out = VERIF / 'seeded' / f'{pid}-{k}'
    else:
        if not (r.get('suite_passed') == 150 and not r.get('suite_failed') and r.get('compare_identical') is True and r.get('compare_clean_rc') == 0):
            print('NOT VERIFIED', d, r.get('suite_passed'), r.get('compare_identical'), r.get('compare_clean_rc'))
            continue
        out = VERIF / 'benign' / f'{pid}-{k}'
    out.mkdir(parents=True, exist_ok=True)
    shutil.copy(d / 'patch.diff', out / 'patch.diff')
    if (d / 'demo.py').exists():
        shutil.copy(d / 'demo.py', out / 'demo.py')
    notes = (d / 'notes.md').read_text() if (d / 'notes.md').exists() else ''
    if notes:
        (out / 'notes.md').write_text(notes)
    meta = {
        'property': pid,
        'kind': 'property-breaking change written by an independent sub-agent that saw only the property text' if kind == 'mutants'
                else 'behaviour-preserving refactoring written by an independent sub-agent that saw only the property text',
        'files': r.get('files'),
        'summary': ' '.join(notes.strip().split('\n')[0:3])[:600],
    }
    if kind == 'mutants':
        meta['needs_to_manifest'] = next((l.strip() for l in notes.split('\n') if re.search(r'need|trigger|manifest|only shows|requires', l, re.I)), '')[:600]
        meta['verified'] = {
            'how': 'tools/seed_eval.py --verify: scratch git worktree of /repo HEAD; demo.py on the clean tree; git apply patch.diff; the pinned suite '
                   '(pytest -q -p no:cacheprovider --timeout=900 --continue-on-collection-errors); demo.py on the patched tree; every ./check <ID> --repo <scratch>',
            'suite_passed_with_patch': r.get('suite_passed'),
            'demo_exit_clean': r.get('demo_clean_rc'),
            'demo_exit_patched': r.get('demo_patched_rc'),
            'demo_last_line_patched': r.get('demo_patched_tail'),
        }
        meta['caught_by'] = r.get('caught_by')
        meta['first_findings'] = {p: c['findings'][:2] for p, c in (r.get('checks') or {}).items() if c['rc'] == 1}
    else:
        for c in (d / 'compare.py', d.parent / 'compare.py'):
            if c.exists():
                shutil.copy(c, out / 'compare.py')
                break
        meta['verified'] = {
            'how': 'tools/benign_eval.py --verify: scratch git worktree of /repo HEAD; compare.py (digest of end-to-end runs) on the clean tree; '
                   'git apply patch.diff; the pinned suite; compare.py on the patched tree (identical output); every ./check <ID> --repo <scratch>',
            'suite_passed_with_patch': r.get('suite_passed'),
            'compare_identical': r.get('compare_identical'),
            'compare_lines': r.get('compare_lines'),
        }
        meta['alarms_when_imported'] = r.get('alarms', r.get('caught_by'))
        meta['analysis_errors_when_imported'] = r.get('analysis_errors')
    (out / 'meta.json').write_text(json.dumps(meta, indent=1) + '\n')
    print('ok', out.name, meta.get('caught_by', meta.get('alarms_when_imported')))
