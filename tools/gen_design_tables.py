#!/venv/bin/python
"""Regenerate (a) /verif/seeded/INDEX.md, one row per seeded change, and (b) the per-property summary in DESIGN.md between the
SEEDED-TABLE markers, from /verif/seeded/*/meta.json; (c) /verif/benign/INDEX.md from /verif/benign/*/meta.json."""
import collections
import json
import pathlib
import re

VERIF = pathlib.Path(__file__).resolve().parent.parent
rows = []
per = collections.OrderedDict()
for d in sorted((VERIF / 'seeded').iterdir(), key=lambda p: (p.name.split('-')[0], int(p.name.split('-')[1])) if '-' in p.name and p.name.split('-')[1].isdigit() else (p.name, 0)):
    mp = d / 'meta.json'
    if not mp.exists():
        continue
    m = json.loads(mp.read_text())
    summ = re.sub(r'\s+', ' ', m.get('summary', '')).replace('|', '/')
    summ = re.sub(r'^#+\s*', '', summ)
    summ = re.sub(r'^(C\d\d\s*)?(Mutant|Mutation|Change)\s*\d*\s*[-:–—.]*\s*', '', summ, flags=re.I)
    obl = []
    for p, fs in (m.get('first_findings') or {}).items():
        for f in fs[:1]:
            obl.append(f.split(' ', 1)[0])
    files = ', '.join(pathlib.Path(f).name for f in (m.get('files') or []))
    cb = m.get('caught_by') or []
    own = m['property'] in cb
    rows.append(f"| {d.name} | {files} | {summ[:170]} | {', '.join(cb) or '**missed**'} | {', '.join(sorted(set(obl)))} | {'yes' if own else 'other check' if cb else 'no'} |")
    s = per.setdefault(m['property'], {'n': 0, 'own': 0, 'other': 0, 'missed': 0, 'obl': collections.Counter(), 'also': collections.Counter()})
    s['n'] += 1
    s['own' if own else 'other' if cb else 'missed'] += 1
    for o in obl:
        if o.startswith(m['property']):
            s['obl'][o] += 1
    for p in cb:
        if p != m['property']:
            s['also'][p] += 1
index = ['# Seeded property-breaking changes', '',
         'One directory per change: `patch.diff`, `demo.py` (fails with the patch, passes without), the author\'s `notes.md`, `meta.json`.', '',
         '| id | file(s) | change (first lines of the author\'s note) | caught by | first obligation(s) reported | by its own property\'s check |', '|---|---|---|---|---|---|'] + rows
(VERIF / 'seeded' / 'INDEX.md').write_text('\n'.join(index) + '\n')
table = ['| property | changes | caught by its own check | only by another property\'s check | missed | own obligations that fired (times) | other checks that also fired |', '|---|---|---|---|---|---|---|']
tot = collections.Counter()
for p, s in per.items():
    table.append(f"| {p} | {s['n']} | {s['own']} | {s['other']} | {s['missed']} | {', '.join(f'{o.split(chr(46))[1]}×{n}' if n > 1 else o.split(chr(46))[1] for o, n in sorted(s['obl'].items(), key=lambda kv: (int(__import__('re').match(r'\d+', kv[0].split('.')[1]).group()), kv[0])))} | {', '.join(f'{q}×{n}' for q, n in sorted(s['also'].items()))} |")
    for k in ('n', 'own', 'other', 'missed'):
        tot[k] += s[k]
table.append(f"| **all** | **{tot['n']}** | **{tot['own']}** | **{tot['other']}** | **{tot['missed']}** | | |")
p = VERIF / 'DESIGN.md'
s = p.read_text()
a, b = s.index('<!-- SEEDED-TABLE-BEGIN -->'), s.index('<!-- SEEDED-TABLE-END -->')
s = s[:a] + '<!-- SEEDED-TABLE-BEGIN -->\n' + '\n'.join(table) + '\n' + s[b:]
p.write_text(s)
brow = []
for d in sorted((VERIF / 'benign').iterdir(), key=lambda p: (p.name.split('-')[0], int(p.name.split('-')[1])) if '-' in p.name and p.name.split('-')[1].isdigit() else (p.name, 0)):
    mp = d / 'meta.json'
    if not mp.exists():
        continue
    m = json.loads(mp.read_text())
    summ = re.sub(r'\s+', ' ', m.get('summary', '')).replace('|', '/')
    summ = re.sub(r'^#+\s*', '', summ)
    files = ', '.join(pathlib.Path(f).name for f in (m.get('files') or []))
    al = m.get('alarms', m.get('alarms_when_imported')) or []
    brow.append(f"| {d.name} | {files} | {summ[:200]} | {', '.join(al) or 'silent'} |")
(VERIF / 'benign' / 'INDEX.md').write_text('\n'.join(['# Behaviour-preserving refactorings', '',
    'One directory per refactoring: `patch.diff`, the author\'s `notes.md`, `compare.py` (prints digests of end-to-end runs; identical with and without the patch), `meta.json`.', '',
    '| id | file(s) | refactoring (first lines of the author\'s note) | checks that fire |', '|---|---|---|---|'] + brow) + '\n')
print(len(rows), 'seeded rows,', len(brow), 'benign rows')
