#!/venv/bin/python
"""Regenerate the table of seeded changes in DESIGN.md (between the SEEDED-TABLE markers) from /verif/seeded/*/meta.json."""
import json
import pathlib
import re

VERIF = pathlib.Path(__file__).resolve().parent.parent
rows = []
for d in sorted((VERIF / 'seeded').iterdir()):
    mp = d / 'meta.json'
    if not mp.exists():
        continue
    m = json.loads(mp.read_text())
    summ = re.sub(r'\s+', ' ', m.get('summary', '')).replace('|', '/')
    summ = re.sub(r'^#+\s*', '', summ)
    summ = re.sub(r'^(Mutant|Mutation|Change)\s*\d*\s*[-:–—.]*\s*', '', summ, flags=re.I)
    obl = []
    for p, fs in (m.get('first_findings') or {}).items():
        for f in fs[:1]:
            obl.append(f.split(' ', 1)[0])
    files = ', '.join(pathlib.Path(f).name for f in (m.get('files') or []))
    own = m['property'] in (m.get('caught_by') or [])
    rows.append(f"| {d.name} | {files} | {summ[:150]} | {', '.join(m.get('caught_by') or []) or '**missed**'} | {', '.join(sorted(set(obl)))} | {'yes' if own else 'other check'} |")
table = ['| id | file(s) | change (first lines of the author\'s note) | caught by | first obligation(s) reported | by its own property\'s check |', '|---|---|---|---|---|---|'] + rows
p = VERIF / 'DESIGN.md'
s = p.read_text()
a, b = s.index('<!-- SEEDED-TABLE-BEGIN -->'), s.index('<!-- SEEDED-TABLE-END -->')
s = s[:a] + '<!-- SEEDED-TABLE-BEGIN -->\n' + '\n'.join(table) + '\n' + s[b:]
p.write_text(s)
print(len(rows), 'rows')
