#!/venv/bin/python
"""tools/mech_probe.py [--keep] [NAMES...]  -- mechanical whole-package refactorings (behaviour-preserving by construction) applied with ast to a scratch
copy of /repo's package; for each: the pinned suite must still give 150 passed, a few compare.py scripts of the benign corpus must print the same
digests as on the clean tree, and every check must stay silent.  Prints one line per transformation.  Scratch copies live under /tmp and are removed."""
import ast
import copy
import json
import os
import pathlib
import shutil
import subprocess
import sys
import tempfile

VERIF = pathlib.Path(__file__).resolve().parent.parent
PY = '/venv/bin/python'
COMPARES = ['benign/C02-13', 'benign/C13-13', 'benign/C09-13', 'benign/C07-13', 'benign/C19-13', 'benign/C12-13']


class AnnotateFields(ast.NodeTransformer):
    """self.x = v  ->  self.x: object = v   (inside functions, single attribute target)"""
    def visit_Assign(self, n):
        if len(n.targets) == 1 and isinstance(n.targets[0], ast.Attribute) and isinstance(n.targets[0].value, ast.Name) and n.targets[0].value.id == 'self':
            return ast.copy_location(ast.AnnAssign(target=n.targets[0], annotation=ast.Name(id='object', ctx=ast.Load()), value=n.value, simple=0), n)
        return n


class AnnotateSignatures(ast.NodeTransformer):
    def visit_FunctionDef(self, n):
        self.generic_visit(n)
        for a in n.args.args + n.args.kwonlyargs:
            if a.arg not in ('self', 'cls') and a.annotation is None:
                a.annotation = ast.Name(id='object', ctx=ast.Load())
        return n


class AnnotateLocals(ast.NodeTransformer):
    """x = v -> x: object = v for single Name targets inside functions"""
    def __init__(self):
        self.depth = 0

    def visit_FunctionDef(self, n):
        self.depth += 1
        self.generic_visit(n)
        self.depth -= 1
        return n

    def visit_ClassDef(self, n):
        d, self.depth = self.depth, 0
        self.generic_visit(n)
        self.depth = d
        return n

    def visit_Assign(self, n):
        if self.depth and len(n.targets) == 1 and isinstance(n.targets[0], ast.Name):
            return ast.copy_location(ast.AnnAssign(target=n.targets[0], annotation=ast.Name(id='object', ctx=ast.Load()), value=n.value, simple=1), n)
        return n


class IsNone(ast.NodeTransformer):
    def visit_Compare(self, n):
        self.generic_visit(n)
        if len(n.ops) == 1 and isinstance(n.comparators[0], ast.Constant) and n.comparators[0].value is None:
            if isinstance(n.ops[0], ast.Eq):
                n.ops = [ast.Is()]
            elif isinstance(n.ops[0], ast.NotEq):
                n.ops = [ast.IsNot()]
        return n


class EqNone(ast.NodeTransformer):
    def visit_Compare(self, n):
        self.generic_visit(n)
        if len(n.ops) == 1 and isinstance(n.comparators[0], ast.Constant) and n.comparators[0].value is None:
            if isinstance(n.ops[0], ast.Is):
                n.ops = [ast.Eq()]
            elif isinstance(n.ops[0], ast.IsNot):
                n.ops = [ast.NotEq()]
        return n


class NoAugAssign(ast.NodeTransformer):
    def visit_AugAssign(self, n):
        if isinstance(n.target, (ast.Name, ast.Attribute)) and (isinstance(n.target, ast.Name) or isinstance(n.target.value, ast.Name)):
            load = copy.deepcopy(n.target)
            load.ctx = ast.Load()
            return ast.copy_location(ast.Assign(targets=[n.target], value=ast.BinOp(left=load, op=n.op, right=n.value)), n)
        return n


class FlattenElseAfterReturn(ast.NodeTransformer):
    def _flat(self, body):
        out = []
        for st in body:
            if isinstance(st, ast.If) and st.orelse and st.body and isinstance(st.body[-1], (ast.Return, ast.Raise, ast.Continue, ast.Break)) \
                    and not (len(st.orelse) == 1 and isinstance(st.orelse[0], ast.If)):
                tail = st.orelse
                st.orelse = []
                out.append(st)
                out.extend(tail)
            else:
                out.append(st)
        return out

    def generic_visit(self, n):
        super().generic_visit(n)
        for f in ('body', 'orelse', 'finalbody'):
            b = getattr(n, f, None)
            if isinstance(b, list) and b and isinstance(b[0], ast.stmt):
                setattr(n, f, self._flat(b))
        return n


class SwapComparisons(ast.NodeTransformer):
    M = {ast.Lt: ast.Gt, ast.Gt: ast.Lt, ast.LtE: ast.GtE, ast.GtE: ast.LtE}

    def visit_Compare(self, n):
        self.generic_visit(n)
        if len(n.ops) == 1 and type(n.ops[0]) in self.M:
            n.left, n.comparators = n.comparators[0], [n.left]
            n.ops = [self.M[type(n.ops[0])]()]
        return n


class InvertIfElse(ast.NodeTransformer):
    def visit_If(self, n):
        self.generic_visit(n)
        if n.orelse and not (len(n.orelse) == 1 and isinstance(n.orelse[0], ast.If)):
            t = n.test
            if isinstance(t, ast.UnaryOp) and isinstance(t.op, ast.Not):
                n.test = t.operand
            else:
                n.test = ast.UnaryOp(op=ast.Not(), operand=t)
            n.body, n.orelse = n.orelse, n.body
        return n


class KeywordSchedule(ast.NodeTransformer):
    # (calls whose argument form the pinned tests assert on -- schedule_event, add_datapoint, reserve_resources_with_callback -- are left alone)
    NAMES = {'offset_next_cycle_time': ['offset'], 'add_routing_history': ['device'], 'add_value': ['label', 'value'], 'add_cost': ['label', 'cost'],
             'remove_from_routing_history': ['index'], '_shutdown': ['is_failure', 'lost_part'],
             '_can_accept_part': ['part'], 'create_work_order': ['target', 'tag', 'info'], '_can_fulfill_request': ['request'], '_release_resources': ['resources']}

    def visit_Call(self, n):
        self.generic_visit(n)
        if isinstance(n.func, ast.Attribute) and n.func.attr in self.NAMES and not any(isinstance(a, ast.Starred) for a in n.args):
            ps = self.NAMES[n.func.attr]
            if len(n.args) <= len(ps):
                n.keywords = [ast.keyword(arg=p, value=a) for p, a in zip(ps, n.args)] + n.keywords
                n.args = []
        return n


class RenameLocals(ast.NodeTransformer):
    """every local variable of every function (not parameters, not names that are global / free) gets the suffix _v"""
    def visit_FunctionDef(self, n):
        params = {a.arg for a in n.args.args + n.args.kwonlyargs + n.args.posonlyargs} | ({n.args.vararg.arg} if n.args.vararg else set()) | ({n.args.kwarg.arg} if n.args.kwarg else set())
        nested = [x for x in ast.walk(n) if isinstance(x, (ast.FunctionDef, ast.Lambda, ast.ClassDef, ast.ListComp, ast.DictComp, ast.SetComp, ast.GeneratorExp)) and x is not n]
        if nested or any(isinstance(x, (ast.Global, ast.Nonlocal)) for x in ast.walk(n)):
            return n
        stored = {x.id for x in ast.walk(n) if isinstance(x, ast.Name) and isinstance(x.ctx, (ast.Store, ast.Del))} - params
        imported = {(a.asname or a.name).split('.')[0] for x in ast.walk(n) if isinstance(x, (ast.Import, ast.ImportFrom)) for a in x.names}
        stored -= imported
        for x in ast.walk(n):
            if isinstance(x, ast.Name) and x.id in stored:
                x.id = x.id + '_v'
        return n


TRANSFORMS = {
    'annotate-fields': AnnotateFields, 'annotate-signatures': AnnotateSignatures, 'annotate-locals': AnnotateLocals, 'is-none': IsNone, 'eq-none': EqNone,
    'no-augassign': NoAugAssign, 'flatten-else-after-return': FlattenElseAfterReturn, 'swap-comparisons': SwapComparisons, 'invert-if-else': InvertIfElse,
    'keyword-arguments': KeywordSchedule, 'rename-locals': RenameLocals,
}


class AliasEnv(ast.NodeTransformer):
    """`env = self._env` at the top of every method that reads self._env at least twice and never stores it (nor uses the name env)"""
    def visit_FunctionDef(self, n):
        if any(isinstance(x, (ast.FunctionDef, ast.Lambda)) for b in n.body for x in ast.walk(b)):
            return n
        reads = [x for x in ast.walk(n) if isinstance(x, ast.Attribute) and x.attr == '_env' and isinstance(x.value, ast.Name) and x.value.id == 'self']
        if len(reads) < 2 or any(not isinstance(x.ctx, ast.Load) for x in reads) or any(isinstance(x, ast.Name) and x.id == 'env_' for x in ast.walk(n)):
            return n
        if not n.args.args or n.args.args[0].arg != 'self':
            return n
        # the alias must be taken after anything that may set self._env (super().initialize / initialize): only when no call precedes the first read
        first = n.body[0]
        if isinstance(first, ast.Expr) and isinstance(first.value, ast.Constant):
            body0, rest = [first], n.body[1:]
        else:
            body0, rest = [], n.body
        if any(isinstance(x, ast.Call) and isinstance(x.func, ast.Attribute) and x.func.attr in ('initialize', '__init__') for b in rest for x in ast.walk(b)):
            return n

        class R(ast.NodeTransformer):
            def visit_Attribute(self_, x):
                self_.generic_visit(x)
                if x.attr == '_env' and isinstance(x.value, ast.Name) and x.value.id == 'self' and isinstance(x.ctx, ast.Load):
                    return ast.copy_location(ast.Name(id='env_', ctx=ast.Load()), x)
                return x
        rest = [R().visit(b) for b in rest]
        alias = ast.Assign(targets=[ast.Name(id='env_', ctx=ast.Store())], value=ast.Attribute(value=ast.Name(id='self', ctx=ast.Load()), attr='_env', ctx=ast.Load()))
        n.body = body0 + [alias] + rest
        return n


class DeMorgan(ast.NodeTransformer):
    """a and b -> not (not a or not b)   (boolean contexts only: tests of if / while / assert and operands of not)"""
    def _rewrite(self, t):
        if isinstance(t, ast.BoolOp) and isinstance(t.op, (ast.And, ast.Or)):
            other = ast.Or() if isinstance(t.op, ast.And) else ast.And()
            return ast.UnaryOp(op=ast.Not(), operand=ast.BoolOp(op=other, values=[ast.UnaryOp(op=ast.Not(), operand=v) for v in t.values]))
        return t

    def visit_If(self, n):
        self.generic_visit(n)
        n.test = self._rewrite(n.test)
        return n

    def visit_While(self, n):
        self.generic_visit(n)
        n.test = self._rewrite(n.test)
        return n


class IfExpAssign(ast.NodeTransformer):
    """if c: t = a else: t = b  ->  t = a if c else b"""
    def visit_If(self, n):
        self.generic_visit(n)
        if len(n.body) == 1 and len(n.orelse) == 1 and isinstance(n.body[0], ast.Assign) and isinstance(n.orelse[0], ast.Assign) \
                and len(n.body[0].targets) == 1 and len(n.orelse[0].targets) == 1 and ast.unparse(n.body[0].targets[0]) == ast.unparse(n.orelse[0].targets[0]):
            return ast.copy_location(ast.Assign(targets=n.body[0].targets, value=ast.IfExp(test=n.test, body=n.body[0].value, orelse=n.orelse[0].value)), n)
        if len(n.body) == 1 and len(n.orelse) == 1 and isinstance(n.body[0], ast.Return) and isinstance(n.orelse[0], ast.Return) \
                and n.body[0].value is not None and n.orelse[0].value is not None:
            return ast.copy_location(ast.Return(value=ast.IfExp(test=n.test, body=n.body[0].value, orelse=n.orelse[0].value)), n)
        return n


TRANSFORMS.update({'alias-env': AliasEnv, 'de-morgan': DeMorgan, 'conditional-expressions': IfExpAssign})


class NestAnd(ast.NodeTransformer):
    """if a and b: X  (no else)  ->  if a: if b: X"""
    def visit_If(self, n):
        self.generic_visit(n)
        if not n.orelse and isinstance(n.test, ast.BoolOp) and isinstance(n.test.op, ast.And) and len(n.test.values) == 2:
            inner = ast.If(test=n.test.values[1], body=n.body, orelse=[])
            return ast.copy_location(ast.If(test=n.test.values[0], body=[inner], orelse=[]), n)
        return n


class MergeNestedIfs(ast.NodeTransformer):
    """if a: if b: X  (no else anywhere)  ->  if a and b: X"""
    def visit_If(self, n):
        self.generic_visit(n)
        if not n.orelse and len(n.body) == 1 and isinstance(n.body[0], ast.If) and not n.body[0].orelse:
            return ast.copy_location(ast.If(test=ast.BoolOp(op=ast.And(), values=[n.test, n.body[0].test]), body=n.body[0].body, orelse=[]), n)
        return n


class GuardClauses(ast.NodeTransformer):
    """def f(): ...; if c: BODY   (last statement, no else, BODY not ending in return with a value)   ->   ...; if not c: return; BODY"""
    def visit_FunctionDef(self, n):
        self.generic_visit(n)
        last = n.body[-1] if n.body else None
        if isinstance(last, ast.If) and not last.orelse and len(last.body) >= 2 and not any(isinstance(x, (ast.Return, ast.Yield)) and getattr(x, 'value', None) is not None
                                                                                            for x in ast.walk(n)) and n.name != '__init__':
            guard = ast.If(test=ast.UnaryOp(op=ast.Not(), operand=last.test), body=[ast.Return(value=None)], orelse=[])
            n.body = n.body[:-1] + [guard] + last.body
        return n


class ListCopySpelling(ast.NodeTransformer):
    def visit_Call(self, n):
        self.generic_visit(n)
        if isinstance(n.func, ast.Attribute) and n.func.attr == 'copy' and not n.args and not n.keywords and isinstance(n.func.value, ast.Attribute) \
                and n.func.value.attr in ('_upstream', '_downstream', '_probes', '_routing_history', '_buffer', 'collected_parts'):
            return ast.copy_location(ast.Call(func=ast.Name(id='list', ctx=ast.Load()), args=[n.func.value], keywords=[]), n)
        return n


TRANSFORMS.update({'nest-and': NestAnd, 'merge-nested-ifs': MergeNestedIfs, 'guard-clauses': GuardClauses, 'list-copy-spelling': ListCopySpelling})


def sh(cmd, cwd=None, env=None, timeout=1200):
    e = dict(os.environ)
    e.update(env or {})
    r = subprocess.run(cmd, cwd=cwd, env=e, capture_output=True, text=True, timeout=timeout)
    return r.returncode, r.stdout + r.stderr


def digests(tree):
    out = {}
    for c in COMPARES:
        cp = VERIF / c / 'compare.py'
        if cp.exists():
            rc, o = sh([PY, str(cp)], cwd='/', env={'PYTHONPATH': str(tree), 'PYTHONHASHSEED': '0', 'HOME': tempfile.mkdtemp(prefix='mp_home_')})
            out[c] = (rc, o)
    return out


def main():
    names = [a for a in sys.argv[1:] if not a.startswith('--')] or list(TRANSFORMS)
    base = pathlib.Path(tempfile.mkdtemp(prefix='mech_probe_'))
    clean = base / 'clean'
    sh(['bash', '-c', f'mkdir -p {clean} && git -C /repo archive HEAD | tar -x -C {clean}'])
    ref = digests(clean)
    results = {}
    for nm in names:
        d = base / nm
        shutil.copytree(clean, d)
        nfiles = 0
        for p in sorted((d / 'simprocesd').rglob('*.py')):
            if 'tests' in p.parts or 'examples' in p.parts:
                continue
            src = p.read_text()
            tree = ast.parse(src)
            new = TRANSFORMS[nm]().visit(tree)
            ast.fix_missing_locations(new)
            txt = ast.unparse(new) + '\n'
            if ast.dump(ast.parse(txt)) != ast.dump(ast.parse(src)):
                nfiles += 1
            p.write_text(txt)
        rc, o = sh([PY, '-m', 'pytest', '-q', '-p', 'no:cacheprovider', '--timeout=900', '--continue-on-collection-errors'], cwd=d)
        passed = '150 passed' in o
        same = digests(d) == ref
        alarms = {}
        ev = base / (nm + '_ev')
        rc2, o2 = sh([PY, str(VERIF / 'check'), 'all', '--repo', str(d)], cwd=VERIF, env={'VERIF_EVIDENCE_DIR': str(ev)})
        lines = [l.strip() for l in o2.splitlines() if l.strip().startswith(('FINDING', 'ANALYSIS-ERROR'))]
        results[nm] = {'files_changed': nfiles, 'suite_150': passed, 'digests_identical': same, 'alarms': len(lines), 'first': lines[:6]}
        print(f'{nm:28s} files={nfiles:2d} suite150={passed} digests_identical={same} alarms={len(lines)}')
        for l in lines[:6]:
            print('      ', l[:220])
        if '--keep' not in sys.argv:
            shutil.rmtree(d, ignore_errors=True)
            shutil.rmtree(ev, ignore_errors=True)
    if '--keep' not in sys.argv:
        shutil.rmtree(base, ignore_errors=True)
    else:
        print('kept under', base)
    json.dump(results, open('/tmp/mech_probe.json', 'w'), indent=1)


if __name__ == '__main__':
    main()
