#!/bin/bash
# tools/rebase_over_f14.sh <dir> ...   -- a patch written against 9f3a046 (before the F14 repair) that touches unpause_matching_events is re-made
# against HEAD: applied on 9f3a046, the repair's own edit (resumed time = now + (time - paused_at)) applied to whatever spelling the patch uses,
# diffed against HEAD.  The version before the rebase is kept as patch.orig.diff (or patch.pre-f14.diff when that exists already).
for d in "$@"; do
  d=$(realpath $d)
  old=$(mktemp -d /tmp/old_XXXX); new=$(mktemp -d /tmp/new_XXXX)
  git -C /repo archive 9f3a046 | tar -x -C $old
  (cd $old && patch -s -p1 < $d/patch.diff) || { echo "OLD APPLY FAILED $d"; continue; }
  find $old -name '*.orig' -delete -o -name '*.rej' -delete
  python3 - $old <<'P'
import re, sys, ast
p = sys.argv[1] + '/simprocesd/model/simulation.py'
s = open(p).read()
n = 0
# B: E.time += NOW - E.paused_at
s, k = re.subn(r"^(\s*)(\w+)\.time \+= ([\w.]+) - \2\.paused_at[ \t]*$", r"\1\2.time = \3 + (\2.time - \2.paused_at)", s, flags=re.M); n += k
# C: E.time = E.time + (NOW - E.paused_at)
s, k = re.subn(r"^(\s*)(\w+)\.time = \2\.time \+ \(([\w.]+) - \2\.paused_at\)[ \t]*$", r"\1\2.time = \3 + (\2.time - \2.paused_at)", s, flags=re.M); n += k
# A: V = NOW - E.paused_at ; E.time = E.time + V
m = re.search(r"^(\s*)(\w+) = ([\w.]+) - (\w+)\.paused_at[ \t]*\n((?:\s*#.*\n)*)(\s*)\4\.time = \4\.time \+ \2[ \t]*$", s, flags=re.M)
if m:
    ind, v, now, e, comments, ind2 = m.groups()
    s = s[:m.start()] + f"{ind}remaining_time = {e}.time - {e}.paused_at\n{comments}{ind2}{e}.time = {now} + remaining_time" + s[m.end():]
    n += 1
ast.parse(s)
open(p, 'w').write(s)
print('rewrites:', n, [l.strip() for l in s.split('\n') if re.search(r'\.time (\+)?= ', l) and 'paused_at' in l or 'remaining_time' in l])
P
  git clone -q /repo $new/r
  rsync -a -c --delete --exclude .git $old/ $new/r/
  (cd $new/r && git add -A >/dev/null && git diff --cached HEAD > $new/patch.diff)
  if [ -f $d/patch.orig.diff ]; then cp $d/patch.diff $d/patch.pre-f14.diff; else cp $d/patch.diff $d/patch.orig.diff; fi
  cp $new/patch.diff $d/patch.diff
  printf "\n\n(Rebased onto the tree that contains the repair F14 (resumed time = now + (time - paused_at)), which touches the same lines; the version before this rebase is kept next to it.)\n" >> $d/notes.md
  echo "rebased $d: $(grep -c '^[+-]' $d/patch.diff) changed lines"
  rm -rf $old $new
done
