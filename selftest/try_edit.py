#!/venv/bin/python
"""try_edit.py FILE OLD NEW PROP...   -- apply one textual edit (OLD must occur exactly once; prefix OLD with 'L<n>:' to
restrict the match to line n) to a scratch copy of /repo/simprocesd and run the given checks on it."""
import os, pathlib, shutil, subprocess, sys, tempfile, re
VERIF = pathlib.Path(__file__).resolve().parent.parent
def main():
    f, old, new, props = sys.argv[1], sys.argv[2], sys.argv[3], sys.argv[4:]
    d = pathlib.Path(tempfile.mkdtemp(prefix='vt_try_'))
    try:
        shutil.copytree('/repo/simprocesd', d / 'simprocesd', ignore=shutil.ignore_patterns('__pycache__', 'tests'))
        t = d / f
        s = t.read_text()
        m = re.match(r'L(\d+):(.*)', old, re.S)
        if m:
            ln, old = int(m.group(1)), m.group(2)
            lines = s.split('\n')
            assert lines[ln - 1].count(old) == 1, (lines[ln - 1], old)
            lines[ln - 1] = lines[ln - 1].replace(old, new)
            s2 = '\n'.join(lines)
        else:
            assert s.count(old) == 1, f'{s.count(old)} occurrences of {old!r}'
            s2 = s.replace(old, new)
        compile(s2, str(t), 'exec')
        t.write_text(s2)
        rc = 0
        for p in props:
            env = dict(os.environ, VERIF_EVIDENCE_DIR=str(d / '_ev'), PYTHONDONTWRITEBYTECODE='1')
            r = subprocess.run([str(VERIF / 'check'), p, '--repo', str(d)], cwd=VERIF, env=env, capture_output=True, text=True)
            lines = [l for l in r.stdout.split('\n') if l.strip().startswith(('FINDING', 'VIOLATION', 'ANALYSIS-ERROR', 'KNOWN'))]
            print(f'[{p}] rc={r.returncode}')
            for l in lines[:8]:
                print('   ', l.strip()[:260])
            if r.returncode not in (0, 1):
                print(r.stdout[-1500:], r.stderr[-1500:])
            rc = max(rc, r.returncode)
        return rc
    finally:
        shutil.rmtree(d, ignore_errors=True)
sys.exit(main())
