"""Self-validation of one property's check on the *current* tree (thorough tier).

For property <ID> every seeded change under /verif/seeded whose meta.json lists <ID> among `caught_by` (or as its property) and every
behaviour-preserving refactoring under /verif/benign is applied to a scratch copy of the repository's current package (outside
/repo and /verif, removed afterwards) and the quick check is run on the copy: a seeded change must make the check report a violation,
a refactoring must leave it silent.  The outcome (detection matrix) is written into the evidence file of the property; it does not
change the exit status, which is the verdict about the repository itself.
"""
import json
import os
import pathlib
import shutil
import subprocess
import sys
import tempfile
import concurrent.futures

VERIF = pathlib.Path(__file__).resolve().parent.parent
PY = sys.executable or '/venv/bin/python'


def _scratch(repo):
    d = pathlib.Path(tempfile.mkdtemp(prefix='verif_selftest_'))
    shutil.copytree(pathlib.Path(repo) / 'simprocesd', d / 'simprocesd', ignore=shutil.ignore_patterns('__pycache__', 'tests'))
    return d


def _one(args):
    pid, repo, case_dir, expect_violation = args
    d = _scratch(repo)
    try:
        r = subprocess.run(['git', 'apply', '--unsafe-paths', '--directory', str(d), str(pathlib.Path(case_dir) / 'patch.diff')],
                           cwd=d, capture_output=True, text=True)
        if r.returncode != 0:
            # patches are relative to the repository root
            r = subprocess.run(['patch', '-p1', '-s', '-i', str(pathlib.Path(case_dir) / 'patch.diff')], cwd=d, capture_output=True, text=True)
            if r.returncode != 0:
                return pathlib.Path(case_dir).name, {'applied': False}
        env = dict(os.environ, VERIF_EVIDENCE_DIR=str(d / '_ev'), PYTHONDONTWRITEBYTECODE='1')
        c = subprocess.run([PY, str(VERIF / 'check'), pid, '--repo', str(d), '--tier', 'quick'], cwd=VERIF, env=env, capture_output=True, text=True, timeout=600)
        findings = [l.strip()[8:].split(' ', 1)[0] for l in c.stdout.splitlines() if l.strip().startswith('FINDING ')]
        return pathlib.Path(case_dir).name, {'applied': True, 'rc': c.returncode, 'obligations': sorted(set(findings)),
                                             'as_expected': (c.returncode == 1) if expect_violation else (c.returncode == 0)}
    except Exception as e:      # noqa: BLE001
        return pathlib.Path(case_dir).name, {'applied': False, 'error': repr(e)}
    finally:
        shutil.rmtree(d, ignore_errors=True)


def _mech(mp, pid, repo, nm):
    import ast
    d = _scratch(repo)
    try:
        for p in sorted((d / 'simprocesd').rglob('*.py')):
            if 'examples' in p.parts:
                continue
            t = mp.TRANSFORMS[nm]().visit(ast.parse(p.read_text()))
            ast.fix_missing_locations(t)
            p.write_text(ast.unparse(t) + '\n')
        env = dict(os.environ, VERIF_EVIDENCE_DIR=str(d / '_ev'), PYTHONDONTWRITEBYTECODE='1')
        c = subprocess.run([PY, str(VERIF / 'check'), pid, '--repo', str(d), '--tier', 'quick'], cwd=VERIF, env=env, capture_output=True, text=True, timeout=600)
        findings = [l.strip()[8:].split(' ', 1)[0] for l in c.stdout.splitlines() if l.strip().startswith('FINDING ')]
        return nm, {'applied': True, 'rc': c.returncode, 'obligations': sorted(set(findings)), 'as_expected': c.returncode == 0}
    except Exception as e:      # noqa: BLE001
        return nm, {'applied': False, 'error': repr(e)}
    finally:
        shutil.rmtree(d, ignore_errors=True)


def thorough_extra(pid, repo):
    jobs = []
    for kind, expect in (('seeded', True), ('benign', False)):
        base = VERIF / kind
        if not base.is_dir():
            continue
        for c in sorted(base.iterdir()):
            mp = c / 'meta.json'
            if not mp.exists() or not (c / 'patch.diff').exists():
                continue
            meta = json.loads(mp.read_text())
            if kind == 'seeded' and pid not in (meta.get('caught_by') or []) and meta.get('property') != pid:
                continue
            if kind == 'seeded' and pid not in (meta.get('caught_by') or []):
                continue       # a change to another property's mechanism that this check is not expected to see
            jobs.append((kind, (pid, repo, str(c), expect)))
    out = {'seeded': {}, 'benign': {}, 'mechanical': {}}
    with concurrent.futures.ThreadPoolExecutor(max(1, min(16, os.cpu_count() or 4))) as ex:
        for (kind, _), (name, res) in zip(jobs, ex.map(_one, [j for _, j in jobs])):
            out[kind][name] = res
        # mechanical whole-package identities (tools/mech_probe.py): each variant of the current tree must leave the check silent
        try:
            import importlib.util
            spec = importlib.util.spec_from_file_location('mech_probe', VERIF / 'tools' / 'mech_probe.py')
            mp = importlib.util.module_from_spec(spec)
            spec.loader.exec_module(mp)
            for name, res in ex.map(lambda nm: _mech(mp, pid, repo, nm), sorted(mp.TRANSFORMS)):
                out['mechanical'][name] = res
        except Exception as e:      # noqa: BLE001
            out['mechanical'] = {'error': repr(e)}
    det = [v for v in out['seeded'].values() if v.get('applied')]
    sil = [v for v in out['benign'].values() if v.get('applied')]
    summary = {
        'seeded_applied': len(det), 'seeded_detected': sum(1 for v in det if v.get('rc') == 1),
        'benign_applied': len(sil), 'benign_silent': sum(1 for v in sil if v.get('rc') == 0),
        'not_applicable_to_current_tree': sorted(k for kind in ('seeded', 'benign') for k, v in out[kind].items() if not v.get('applied')),
        'mechanical_applied': sum(1 for v in out['mechanical'].values() if isinstance(v, dict) and v.get('applied')),
        'mechanical_silent': sum(1 for v in out['mechanical'].values() if isinstance(v, dict) and v.get('applied') and v.get('rc') == 0),
    }
    evp = pathlib.Path(os.environ.get('VERIF_EVIDENCE_DIR') or (VERIF / 'evidence')) / f'{pid}.json'
    try:
        ev = json.loads(evp.read_text())
        ev['coverage']['self_validation'] = {'summary': summary, 'seeded': out['seeded'], 'benign': out['benign'], 'mechanical': out['mechanical'],
                                             'note': 'variants of the current tree analysed on scratch copies; informational, does not change the exit status'}
        ev['tier'] = 'thorough'
        evp.write_text(json.dumps(ev, indent=1, default=str) + '\n')
    except Exception:       # noqa: BLE001
        pass
    try:
        print(f'{pid} [thorough] self-validation on scratch copies of the current tree: {summary["seeded_detected"]}/{summary["seeded_applied"]} seeded changes detected, '
              f'{summary["benign_silent"]}/{summary["benign_applied"]} behaviour-preserving refactorings silent, '
              f'{summary["mechanical_silent"]}/{summary["mechanical_applied"]} mechanical whole-package identities silent')
        for k, v in sorted(out['seeded'].items()):
            if v.get('applied') and v.get('rc') != 1:
                print(f'  MISSED seeded change {k} (rc={v.get("rc")})')
        for k, v in sorted(out['benign'].items()):
            if v.get('applied') and v.get('rc') != 0:
                print(f'  NOISY on refactoring {k} (rc={v.get("rc")}, {v.get("obligations")})')
        for k, v in sorted(out['mechanical'].items()):
            if isinstance(v, dict) and v.get('applied') and v.get('rc') != 0:
                print(f'  NOISY on mechanical identity {k} (rc={v.get("rc")}, {v.get("obligations")})')
    except BrokenPipeError:
        pass
    return summary
