#!/venv/bin/python
"""First-order mutation survey used to validate the checkers both ways.

  mutate.py gen   FILE...                      list the mutants of the given package files
  mutate.py survey [--files F...] --out J      run the pinned test suite on every mutant (scratch copies), keep survivors
  mutate.py detect --in J --out K [--props ..] run ./check on every surviving mutant, record which obligations fire

Mutants are text-level edits computed from AST node positions, so line numbers of the
original file are preserved.  Scratch copies live under a tempfile.mkdtemp() directory and are
removed in a finally block.  Nothing is ever written under /repo.
"""
import argparse
import ast
import concurrent.futures
import json
import os
import pathlib
import re
import shutil
import subprocess
import sys
import tempfile

VERIF = pathlib.Path(__file__).resolve().parent.parent
REPO = pathlib.Path(os.environ.get('VERIF_REPO', '/repo'))
PY = '/venv/bin/python'

CMP_SWAPS = {'<': ['<=', '>'], '<=': ['<', '>='], '>': ['>=', '<'], '>=': ['>', '<='],
             '==': ['!='], '!=': ['=='], 'is': ['is not'], 'is not': ['is'], 'in': ['not in'], 'not in': ['in']}
CMP_TOK = {ast.Lt: '<', ast.LtE: '<=', ast.Gt: '>', ast.GtE: '>=', ast.Eq: '==', ast.NotEq: '!=',
           ast.Is: 'is', ast.IsNot: 'is not', ast.In: 'in', ast.NotIn: 'not in'}
BIN_TOK = {ast.Add: '+', ast.Sub: '-', ast.Mult: '*', ast.Div: '/', ast.FloorDiv: '//', ast.Mod: '%'}
BIN_SWAPS = {'+': ['-'], '-': ['+'], '*': ['/'], '/': ['*'], '//': ['*'], '%': ['*']}


class Src:
    def __init__(self, text):
        self.text = text
        self.lines = text.split('\n')
        self.off = [0]
        for l in self.lines:
            self.off.append(self.off[-1] + len(l.encode()) + 1)
        self.bytes = text.encode()

    def pos(self, line, col):
        return self.off[line - 1] + col

    def span(self, node):
        return self.pos(node.lineno, node.col_offset), self.pos(node.end_lineno, node.end_col_offset)

    def seg(self, a, b):
        return self.bytes[a:b].decode()

    def replace(self, a, b, new):
        return (self.bytes[:a] + new.encode() + self.bytes[b:]).decode()


def gen_mutants(relpath, text):
    """yield dicts: file, line, op, desc, src (mutated text)"""
    S = Src(text)
    tree = ast.parse(text)
    out = []
    docstrings = set()
    for n in ast.walk(tree):
        if isinstance(n, (ast.FunctionDef, ast.ClassDef, ast.Module)) and n.body and isinstance(n.body[0], ast.Expr) \
                and isinstance(n.body[0].value, ast.Constant) and isinstance(n.body[0].value.value, str):
            docstrings.add(id(n.body[0]))
            docstrings.add(id(n.body[0].value))
    parents = {}
    for n in ast.walk(tree):
        for ch in ast.iter_child_nodes(n):
            parents[ch] = n

    def add(node, op, desc, a, b, new):
        try:
            src = S.replace(a, b, new)
            ast.parse(src)
        except SyntaxError:
            return
        if src == text:
            return
        out.append({'file': relpath, 'line': node.lineno, 'col': node.col_offset, 'op': op, 'desc': desc, 'src': src})

    def between(left, right, tok):
        """byte span of operator token `tok` between two operand nodes"""
        a = S.span(left)[1]
        b = S.span(right)[0]
        seg = S.seg(a, b)
        m = re.search(r'(?<![<>=!])' + re.escape(tok) + r'(?![=])' if tok in ('<', '>') else re.escape(tok), seg)
        if not m:
            return None
        return a + len(seg[:m.start()].encode()), a + len(seg[:m.end()].encode())

    in_assert_msg = set()
    for n in ast.walk(tree):
        if isinstance(n, ast.Assert) and n.msg is not None:
            for x in ast.walk(n.msg):
                in_assert_msg.add(id(x))
        if isinstance(n, ast.Raise) and n.exc is not None:
            for x in ast.walk(n.exc):
                in_assert_msg.add(id(x))
        if isinstance(n, ast.JoinedStr):
            for x in ast.walk(n):
                in_assert_msg.add(id(x))

    for n in ast.walk(tree):
        if id(n) in in_assert_msg:
            continue
        if isinstance(n, ast.Compare):
            operands = [n.left] + n.comparators
            for i, op in enumerate(n.ops):
                tok = CMP_TOK.get(type(op))
                if tok is None:
                    continue
                sp = between(operands[i], operands[i + 1], tok)
                if sp is None:
                    continue
                for new in CMP_SWAPS[tok]:
                    add(n, 'cmp', f'{tok} -> {new}', sp[0], sp[1], new)
        elif isinstance(n, ast.BinOp):
            tok = BIN_TOK.get(type(n.op))
            if tok and not (isinstance(n.left, ast.Constant) and isinstance(n.left.value, str)) \
                    and not isinstance(n.left, ast.JoinedStr) and not isinstance(n.right, ast.JoinedStr):
                sp = between(n.left, n.right, tok)
                if sp:
                    for new in BIN_SWAPS[tok]:
                        add(n, 'binop', f'{tok} -> {new}', sp[0], sp[1], new)
        elif isinstance(n, ast.AugAssign):
            tok = BIN_TOK.get(type(n.op))
            if tok in ('+', '-'):
                sp = between(n.target, n.value, tok + '=')
                if sp:
                    add(n, 'augop', f'{tok}= -> {"-" if tok == "+" else "+"}=', sp[0], sp[1], ('-' if tok == '+' else '+') + '=')
            if tok == '%':
                a, b = S.span(n)
                add(n, 'del', 'statement -> pass', a, b, 'pass')
        elif isinstance(n, ast.BoolOp):
            tok = 'and' if isinstance(n.op, ast.And) else 'or'
            for i in range(len(n.values) - 1):
                sp = between(n.values[i], n.values[i + 1], tok)
                if sp:
                    add(n, 'boolop', f'{tok} -> {"or" if tok == "and" else "and"}', sp[0], sp[1], 'or' if tok == 'and' else 'and')
            # drop one operand
            for i, v in enumerate(n.values):
                a, b = S.span(v)
                add(n, 'boolop-drop', f'operand #{i + 1} of {tok} -> {"True" if tok == "and" else "False"}', a, b,
                    'True' if tok == 'and' else 'False')
        elif isinstance(n, ast.UnaryOp) and isinstance(n.op, ast.Not):
            a, b = S.span(n)
            oa, ob = S.span(n.operand)
            add(n, 'not', 'not x -> x', a, b, '(' + S.seg(oa, ob) + ')')
        elif isinstance(n, ast.UnaryOp) and isinstance(n.op, ast.USub) and not isinstance(n.operand, ast.Constant):
            a, b = S.span(n)
            oa, ob = S.span(n.operand)
            add(n, 'neg', '-x -> x', a, b, '(' + S.seg(oa, ob) + ')')
        elif isinstance(n, ast.Constant) and id(n) not in docstrings:
            a, b = S.span(n)
            v = n.value
            if v is True:
                add(n, 'const', 'True -> False', a, b, 'False')
            elif v is False:
                add(n, 'const', 'False -> True', a, b, 'True')
            elif isinstance(v, int) and not isinstance(v, bool):
                par = parents.get(n)
                if isinstance(par, ast.UnaryOp) and isinstance(par.op, ast.USub):
                    pa, pb = S.span(par)
                    if v == 1:
                        add(n, 'const', '-1 -> 0', pa, pb, '0')
                        add(n, 'const', '-1 -> -2', pa, pb, '-2')
                    continue
                if v == 0:
                    add(n, 'const', '0 -> 1', a, b, '1')
                    if isinstance(par, (ast.Subscript, ast.Call)):
                        add(n, 'const', '0 -> -1', a, b, '-1')
                elif v == 1:
                    add(n, 'const', '1 -> 0', a, b, '0')
                    add(n, 'const', '1 -> 2', a, b, '2')
                else:
                    add(n, 'const', f'{v} -> {v + 1}', a, b, str(v + 1))
            elif isinstance(v, float):
                add(n, 'const', f'{v} -> {v + 1}', a, b, repr(v + 1))
            elif v is None and isinstance(parents.get(n), ast.Assign):
                pass
        elif isinstance(n, ast.If):
            a, b = S.span(n.test)
            add(n, 'if', 'if c -> if not c', a, b, 'not (' + S.seg(a, b) + ')')
            add(n, 'if', 'if c -> if True', a, b, 'True')
            add(n, 'if', 'if c -> if False', a, b, 'False')
        elif isinstance(n, ast.While):
            a, b = S.span(n.test)
            add(n, 'while', 'while c -> while False', a, b, 'False')
        elif isinstance(n, ast.Return) and n.value is not None:
            a, b = S.span(n.value)
            if isinstance(n.value, ast.Constant) and isinstance(n.value.value, bool):
                pass      # covered by const
            elif not isinstance(n.value, ast.Constant):
                add(n, 'ret', 'return x -> return None', a, b, 'None')
                if isinstance(n.value, (ast.Compare, ast.BoolOp, ast.UnaryOp)) or \
                        (isinstance(n.value, ast.Call) and 'can_accept' in S.seg(a, b)):
                    add(n, 'ret', 'return x -> return not x', a, b, 'not (' + S.seg(a, b) + ')')
        elif isinstance(n, (ast.Break,)):
            a, b = S.span(n)
            add(n, 'break', 'break -> continue', a, b, 'continue')
            add(n, 'break', 'break -> pass', a, b, 'pass')
        elif isinstance(n, ast.Continue):
            a, b = S.span(n)
            add(n, 'continue', 'continue -> break', a, b, 'break')
        if isinstance(n, (ast.Expr, ast.Assign, ast.AugAssign, ast.Delete, ast.Raise)) and id(n) not in docstrings:
            if isinstance(n, ast.Expr) and isinstance(n.value, ast.Constant):
                continue
            a, b = S.span(n)
            add(n, 'del', 'statement -> pass', a, b, 'pass')
        if isinstance(n, ast.Return) and isinstance(parents.get(n), (ast.If, ast.For, ast.While)):
            a, b = S.span(n)
            add(n, 'del', 'return -> pass', a, b, 'pass')
        if isinstance(n, ast.Call) and isinstance(n.func, ast.Attribute):
            fa = S.span(n.func)[1] - len(n.func.attr.encode())
            fb = S.span(n.func)[1]
            nm = n.func.attr
            if nm == 'append' and len(n.args) == 1:
                a0, b0 = S.span(n.args[0])
                add(n, 'call', 'append(x) -> insert(0, x)', fa, b0, 'insert(0, ' + S.seg(a0, b0))
            if nm == 'pop' and len(n.args) == 1 and isinstance(n.args[0], ast.Constant) and n.args[0].value == 0:
                a0, b0 = S.span(n.args[0])
                add(n, 'call', 'pop(0) -> pop()', a0, b0, '')
            if nm == 'pop' and not n.args:
                b0 = S.span(n)[1]
                add(n, 'call', 'pop() -> pop(0)', b0 - 1, b0 - 1, '0')
            if nm == 'insort' and len(n.args) == 2:
                a0 = S.span(n.func)[0]
                l0, l1 = S.span(n.args[0])
                e0, e1 = S.span(n.args[1])
                add(n, 'call', 'insort(L, x) -> L.append(x)', a0, S.span(n)[1], f'{S.seg(l0, l1)}.append({S.seg(e0, e1)})')
            if nm in ('pause_matching_events', 'cancel_matching_events', 'unpause_matching_events'):
                alt = {'pause_matching_events': 'cancel_matching_events', 'cancel_matching_events': 'pause_matching_events',
                       'unpause_matching_events': 'pause_matching_events'}[nm]
                add(n, 'call', f'{nm} -> {alt}', fa, fb, alt)
            if nm in ('min', 'max'):
                pass
        if isinstance(n, ast.Call) and isinstance(n.func, ast.Name) and n.func.id in ('min', 'max'):
            a, b = S.span(n.func)
            add(n, 'call', f'{n.func.id} -> {"max" if n.func.id == "min" else "min"}', a, b, 'max' if n.func.id == 'min' else 'min')
        if isinstance(n, ast.Attribute) and isinstance(n.value, ast.Name) and n.value.id == 'EventType' and isinstance(n.ctx, ast.Load):
            a, b = S.span(n)
            for alt in ('OTHER_LOW_PRIORITY', 'OTHER_HIGH_PRIORITY'):
                if alt != n.attr:
                    add(n, 'evtype', f'EventType.{n.attr} -> EventType.{alt}', a, b, 'EventType.' + alt)
        if isinstance(n, ast.Subscript) and isinstance(n.slice, ast.Slice) is False and isinstance(n.ctx, ast.Load):
            pass
        if isinstance(n, ast.keyword) and n.arg == 'reverse':
            pass
        if isinstance(n, ast.Call) and isinstance(n.func, ast.Name) and n.func.id == 'sorted' and not any(k.arg == 'reverse' for k in n.keywords):
            b0 = S.span(n)[1]
            add(n, 'call', 'sorted(...) -> sorted(..., reverse=True)', b0 - 1, b0 - 1, ', reverse = True')
        if isinstance(n, ast.arguments):
            for d in n.defaults + [k for k in n.kw_defaults if k is not None]:
                pass
    # statement swaps are not first-order; enum member order: swap adjacent members of an Enum
    for n in ast.walk(tree):
        if isinstance(n, ast.ClassDef) and any('Enum' in ast.unparse(b) for b in n.bases):
            mem = [s for s in n.body if isinstance(s, ast.Assign)]
            for x, y in zip(mem, mem[1:]):
                xa, xb = S.span(x.targets[0])
                ya, yb = S.span(y.targets[0])
                src = S.replace(ya, yb, S.seg(xa, xb))
                S2 = Src(src)
                src = S2.replace(xa, xb, S.seg(ya, yb))
                out.append({'file': relpath, 'line': x.lineno, 'col': x.col_offset, 'op': 'enum-swap',
                            'desc': f'swap {S.seg(xa, xb)} and {S.seg(ya, yb)}', 'src': src})
    # de-duplicate identical results
    seen, uniq = set(), []
    for m in out:
        k = (m['file'], m['src'])
        if k not in seen:
            seen.add(k)
            uniq.append(m)
    for i, m in enumerate(uniq):
        m['id'] = f"{pathlib.Path(m['file']).stem}:{m['line']}:{m['op']}:{i}"
        m['sig'] = f"{m['file']}|{m['line']}|{m['col']}|{m['op']}|{m['desc']}"
    return uniq


def load_survivors(path):
    """survivor records with their mutated source; a compact file (no 'src') is re-materialised against the current tree"""
    d = json.load(open(path))
    surv = d['survivors'] if isinstance(d, dict) else d
    if surv and 'src' in surv[0]:
        return surv
    by_file = {}
    for m in surv:
        by_file.setdefault(m['file'], []).append(m)
    out = []
    for f, ms in by_file.items():
        if not (REPO / f).exists():
            continue
        cur = {g['sig']: g for g in gen_mutants(f, (REPO / f).read_text())}
        for m in ms:
            g = cur.get(m['sig'])
            if g is not None:
                out.append(dict(m, src=g['src'], id=m.get('id', g['id'])))
    return out


def package_files():
    base = REPO / 'simprocesd'
    out = []
    for p in sorted(base.rglob('*.py')):
        rel = p.relative_to(REPO)
        if 'tests' in rel.parts or p.name == '__init__.py':
            continue
        if 'simulation_info_utils' in p.name:
            continue
        out.append(str(rel))
    return out


# ---------------------------------------------------------------------------

def make_scratch(tag):
    d = pathlib.Path(tempfile.mkdtemp(prefix=f'vt_{tag}_'))
    shutil.copytree(REPO / 'simprocesd', d / 'simprocesd', ignore=shutil.ignore_patterns('__pycache__'))
    return d


def run_suite(tree, timeout=120):
    env = dict(os.environ, PYTHONDONTWRITEBYTECODE='1')
    try:
        r = subprocess.run([PY, '-m', 'pytest', '-q', '-x', '-p', 'no:cacheprovider', '--timeout=60',
                            '--deselect', 'simprocesd/tests/utils/test_utils.py', '--ignore', 'simprocesd/tests/utils/test_utils.py'],
                           cwd=tree, env=env, capture_output=True, text=True, timeout=timeout)
    except subprocess.TimeoutExpired:
        return False, 'timeout'
    tail = r.stdout.strip().split('\n')[-1] if r.stdout.strip() else ''
    return r.returncode == 0, tail


def run_checks(tree, props, tier='quick'):
    """-> {prop: (rc, [finding keys])}"""
    res = {}
    for p in props:
        env = dict(os.environ, PYTHONDONTWRITEBYTECODE='1', VERIF_EVIDENCE_DIR=str(pathlib.Path(tree) / '_ev'))
        r = subprocess.run([PY, str(VERIF / 'check'), p, '--repo', str(tree), '--tier', tier],
                           cwd=VERIF, env=env, capture_output=True, text=True, timeout=600)
        keys = [l.strip()[len('FINDING '):] for l in r.stdout.split('\n') if l.strip().startswith('FINDING ')]
        err = [l for l in r.stdout.split('\n') if l.startswith('ANALYSIS-ERROR')]
        res[p] = (r.returncode, keys if r.returncode == 1 else err)
    return res


def _survey_worker(args):
    idx, batch = args
    d = make_scratch(f's{idx}')
    out = []
    try:
        for m in batch:
            target = d / m['file']
            orig = target.read_text()
            target.write_text(m['src'])
            try:
                ok, tail = run_suite(d)
            finally:
                target.write_text(orig)
            out.append((m['id'], ok, tail))
    finally:
        shutil.rmtree(d, ignore_errors=True)
    return out


def _detect_worker(args):
    idx, batch, props = args
    d = make_scratch(f'd{idx}')
    out = []
    try:
        for m in batch:
            target = d / m['file']
            orig = target.read_text()
            target.write_text(m['src'])
            try:
                res = run_checks(d, props)
            finally:
                target.write_text(orig)
            out.append((m['id'], res))
    finally:
        shutil.rmtree(d, ignore_errors=True)
    return out


def chunks(lst, n):
    k = max(1, (len(lst) + n - 1) // n)
    return [lst[i:i + k] for i in range(0, len(lst), k)]


def all_mutants(files):
    out = []
    for f in files:
        out += gen_mutants(f, (REPO / f).read_text())
    return out


def main():
    ap = argparse.ArgumentParser()
    ap.add_argument('cmd', choices=['gen', 'survey', 'detect', 'show'])
    ap.add_argument('--files', nargs='*')
    ap.add_argument('--out')
    ap.add_argument('--in', dest='inp')
    ap.add_argument('--props', default='')
    ap.add_argument('--jobs', type=int, default=16)
    ap.add_argument('--only', default='')
    a = ap.parse_args()
    files = a.files or package_files()
    if a.cmd == 'gen':
        ms = all_mutants(files)
        for m in ms:
            print(m['id'], m['desc'])
        print(len(ms), 'mutants')
    elif a.cmd == 'survey':
        ms = all_mutants(files)
        by_id = {m['id']: m for m in ms}
        print(len(ms), 'mutants; running the suite on each ...', flush=True)
        results = []
        # interleave so that every worker gets a mix of files
        order = ms[::1]
        batches = [order[i::a.jobs * 4] for i in range(a.jobs * 4)]
        with concurrent.futures.ProcessPoolExecutor(a.jobs) as ex:
            for r in ex.map(_survey_worker, [(i, b) for i, b in enumerate(batches) if b]):
                results += r
                print(f'  {len(results)}/{len(ms)}', flush=True)
        surv = [dict(by_id[i], suite=tail) for i, ok, tail in results if ok]
        killed = sum(1 for _, ok, _ in results if not ok)
        json.dump({'total': len(ms), 'killed_by_suite': killed, 'survivors': surv}, open(a.out, 'w'))
        print(f'{len(ms)} mutants, {killed} killed by the suite, {len(surv)} survive -> {a.out}')
    elif a.cmd == 'detect':
        surv = load_survivors(a.inp)
        if a.only:
            surv = [m for m in surv if re.search(a.only, m['id'])]
        props = [p for p in a.props.split(',') if p]
        batches = [surv[i::a.jobs * 2] for i in range(a.jobs * 2)]
        results = {}
        with concurrent.futures.ProcessPoolExecutor(a.jobs) as ex:
            for r in ex.map(_detect_worker, [(i, b, props) for i, b in enumerate(batches) if b]):
                for mid, res in r:
                    results[mid] = res
                print(f'  {len(results)}/{len(surv)}', flush=True)
        out = []
        for m in surv:
            res = results[m['id']]
            fired = {p: v[1] for p, v in res.items() if v[0] == 1}
            errs = {p: v[1] for p, v in res.items() if v[0] not in (0, 1)}
            out.append({'id': m['id'], 'file': m['file'], 'line': m['line'], 'desc': m['desc'], 'fired': fired, 'errors': errs})
        json.dump(out, open(a.out, 'w'), indent=1)
        n = sum(1 for o in out if o['fired'])
        print(f'{len(out)} surviving mutants, {n} detected by at least one check, {sum(1 for o in out if o["errors"])} with analysis errors')
    elif a.cmd == 'show':
        out = json.load(open(a.inp))
        for o in out:
            tag = 'DET ' if o['fired'] else ('ERR ' if o['errors'] else 'MISS')
            print(tag, o['id'], '|', o['desc'], '|', ','.join(sorted(o['fired'])) or '-')


if __name__ == '__main__':
    main()
