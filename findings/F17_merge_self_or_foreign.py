"""F17 (C09): ReservedResources.merge() with a reservation of another ResourceManager, or with the reservation itself, breaks
"the usage of each resource equals the sum of the amounts held by outstanding reservations and is never negative".
Exit 0 when both sequences keep the books balanced (or are refused without changing anything), 1 otherwise."""
import sys
from simprocesd.model import System
from simprocesd.model.resource_manager import ResourceManager

problems = []
system = System()
rm = system.resource_manager
rm.add_resources('operator', 3)
system.simulate(0, print_summary=False)

# 1. reservations of two different managers: merge, then release
rm2 = ResourceManager()
rm2.add_resources('operator', 3)
rm2.initialize(system._env)
a = rm.reserve_resources({'operator': 1})
b = rm2.reserve_resources({'operator': 1})
try:
    a.merge(b)
    a.release()
except ValueError as e:
    print('refused:', e)
    a.release(); b.release()
u1, u2 = rm.get_resource_usage('operator'), rm2.get_resource_usage('operator')
print(f'cross-manager merge + release: usage in the first pool {u1}, in the second pool {u2}; reservations hold {a.reserved_resources} and {b.reserved_resources}')
if u1 < 0:
    problems.append(f'merging a reservation of another manager and releasing drove the usage of the first pool to {u1}')
if u2 != sum(b.reserved_resources.values()):
    problems.append(f'the second pool reports usage {u2} but its only reservation holds {b.reserved_resources}')

# 2. a reservation merged into itself (fresh pool)
rm3 = ResourceManager()
rm3.add_resources('operator', 3)
rm3.initialize(system._env)
c = rm3.reserve_resources({'operator': 2})
try:
    c.merge(c)
except ValueError as e:
    print('refused:', e)
held, usage = c.reserved_resources.get('operator', 0), rm3.get_resource_usage('operator')
print(f'self-merge: the reservation holds {held}, the pool reports usage {usage}')
if held != usage:
    problems.append(f'after c.merge(c) the pool reports {usage} operators in use but the only reservation holds {held}')
for p in problems:
    print('FAIL:', p)
sys.stdout.flush()
import os
os._exit(1 if problems else 0)      # skip __del__ noise of reservations that are still outstanding
