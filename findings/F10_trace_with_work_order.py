"""F10: an enabled event trace must list exactly the executed events -- but tracing a model with a Maintainer work order aborts the run:
Environment._trace_event reads event.action.__name__ and the maintainer schedules functools.partial objects, which have no __name__."""
import os, random, json, tempfile
home = tempfile.mkdtemp()
os.makedirs(os.path.join(home, 'Downloads'))
os.environ['HOME'] = home
from simprocesd.model import System
from simprocesd.model.factory_floor import Source, Sink, PartProcessor, Maintainer
from simprocesd.model.simulation import EventType

random.seed(3)
s = System()
src = Source('src', cycle_time=1)
m = PartProcessor('m', upstream=[src], cycle_time=2)
sink = Sink('sink', upstream=[m])
mt = Maintainer('mt')
s.simulate(0, print_summary=False)
s._env.schedule_event(3, -1, lambda: mt.create_work_order(m, 'service'), EventType.OTHER_LOW_PRIORITY)
try:
    s.simulate(10, trace=True, print_summary=False)
except AttributeError as e:
    raise AssertionError(f'tracing a run with a work order aborts the simulation at t={s._env.now}: {e!r}')
trace = json.load(open(os.path.join(home, 'Downloads', f'{s._env.name}_trace.json')))
times = [v['time'] for k, v in sorted(trace.items(), key=lambda kv: int(kv[0]))]
assert times == sorted(times) and len(times) > 10 and s._env.now == 10, (len(times), s._env.now)
assert any('work' in str(v['action']) for v in trace.values()), 'the work-order events are missing from the trace'
print('traced', len(times), 'events up to t =', s._env.now)
