"""F11: a pool operation that raises must change nothing -- but on a manager that is not initialised yet (a state the class supports:
add_resources tests `_env != None`) reserve_resources takes the first resource and then raises AttributeError, and
reserve_resources_with_callback registers the request and then raises."""
from simprocesd.model.resource_manager import ResourceManager

rm = ResourceManager()
rm.add_resources('a', 5)
rm.add_resources('b', 5)
try:
    rr = rm.reserve_resources({'a': 1, 'b': 2})
except AttributeError as e:
    raise AssertionError(f'reserve_resources raised {e!r} and left usage a={rm.get_resource_usage("a")} b={rm.get_resource_usage("b")} with no reservation returned')
assert (rm.get_resource_usage('a'), rm.get_resource_usage('b')) == (1, 2) and rr.reserved_resources == {'a': 1, 'b': 2}
called = []
try:
    rm.reserve_resources_with_callback({'a': 10}, lambda m, r: called.append(r))
except AttributeError as e:
    raise AssertionError(f'reserve_resources_with_callback raised {e!r} after registering the request ({len(rm._waiting_requests)} waiting)')
rr.release()
assert (rm.get_resource_usage('a'), rm.get_resource_usage('b')) == (0, 0)
# a request registered before the start is served once it fits after the start
from simprocesd.model import System
s = System(resource_manager=rm)
s.simulate(1, print_summary=False)
rm.add_resources('a', 5)
s.simulate(1, print_summary=False)
assert called == [{'a': 10}], called
print('ok')
