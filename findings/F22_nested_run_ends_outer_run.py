"""F22 (known finding, C01.15; round 9, reported in passing by the C01 seeding sub-agent; DESIGN.md section 5).

C01 quantifies over "run calls issued from inside event actions".  On the current tree a run started from inside an action ends the
run that is executing it: both share the single flag Environment._terminated, so when the inner run's TERMINATE event sets it the
outer loop stops as well -- at the inner run's end, not at t0 + d -- and the outer run's TERMINATE event stays live in the queue
(the `finally` of F20 only cancels it when the flag is *not* set), where it ends a later run early.

Exit status: 1 while the defect is present, 0 once runs end at t0 + d.
"""
from simprocesd.model.simulation import Environment

env = Environment()
seen = []
env.schedule_event(2, 1, lambda: (seen.append(('outer action', env.now)), env.run(3)))   # inner run: 2 .. 5
env.schedule_event(4, 1, lambda: seen.append(('at 4', env.now)))
env.schedule_event(8, 1, lambda: seen.append(('at 8', env.now)))
env.run(10)                                                                              # should end at 10 with 'at 8' executed
first_end = env.now
env.schedule_event(first_end + 20, 1, lambda: seen.append(('late', env.now)))
env.run(30)                                                                              # should end at first_end + 30
print('first run(10) ended at', first_end, '; second run(30) ended at', env.now, '; executed:', seen)
observed = first_end != 10 or env.now != first_end + 30
print('FAIL: a nested run ends the run around it' if observed else 'ok: runs end at t0 + d')
raise SystemExit(1 if observed else 0)
