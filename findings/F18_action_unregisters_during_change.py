"""F18 (C18): an action that registers or unregisters an object while the scheduler applies a state change aborts the run with
"RuntimeError: dictionary changed size during iteration" instead of taking effect from the next change on.
Exit 0 when the one-shot action below runs exactly once and the other objects keep being served, 1 otherwise."""
import sys
from simprocesd.model import System
from simprocesd.model.factory_floor import ActionScheduler

system = System()
log = []
sched = ActionScheduler([(10, 'day'), (10, 'night')], name='shift', is_cyclical=True)
def plain(s, obj, t, state):
    log.append((t, obj, state))
def one_shot(s, obj, t, state):
    log.append((t, obj, state))
    s.unregister_object(obj)          # "objects ... unregistered later are affected only from the next change on"
sched.register_object('lights', plain)
sched.register_object('warm-up', one_shot)
sched.register_object('doors', plain)
try:
    system.simulate(25, print_summary=False)
except RuntimeError as e:
    print('FAIL: the run was aborted:', e)
    print('action calls so far:', log)
    sys.exit(1)
expected = [(0, 'lights', 'day'), (0, 'warm-up', 'day'), (0, 'doors', 'day'),
            (10, 'lights', 'night'), (10, 'doors', 'night'), (20, 'lights', 'day'), (20, 'doors', 'day')]
print('action calls:', log)
if log != expected:
    print('FAIL: expected', expected)
    sys.exit(1)
