"""F20 (C01): a run that is ended by an exception raised in an event's action (and caught by the caller, as in a notebook or a parameter sweep that
skips a failing configuration) leaves its TERMINATE event in the queue.  The next run(d) started at t0 then ends when that stale event is due, not
at t0 + d, and the events between the two times are not executed.
Exit 0 when the second run ends at exactly t0 + d having executed every event due until then, 1 otherwise."""
import contextlib, io, sys
from simprocesd.model import System
from simprocesd.model.factory_floor import Source, Sink, PartProcessor

system = System()
src = Source()
m = PartProcessor(upstream=[src], cycle_time=1, name='M')
sink = Sink(upstream=[m])


def inspection(processor, part):
    if system._env.now == 3:
        raise RuntimeError('inspection station offline')       # a user callback that fails once


m.add_finish_processing_callback(inspection)
with contextlib.redirect_stdout(io.StringIO()):
    try:
        system.simulate(10, print_summary=False)               # aborted at t = 3; its TERMINATE event (due at 10) stays queued
    except RuntimeError:
        pass
    t0 = system._env.now
    system.simulate(20, print_summary=False)                   # must end at t0 + 20 = 23
now = system._env.now
print(f'first run aborted at t0 = {t0}; second run of duration 20 ended at {now} (expected {t0 + 20}); sink received {sink.received_parts_count} parts')
if now != t0 + 20:
    print('FAIL: the run ended when the TERMINATE event of the aborted run was due')
    sys.exit(1)
sys.exit(0)
