"""F21 (C08, known, not repaired): a PartBatcher inside a shared group.  Parts enter the group through a group path, which pushes itself on the
part's group-path stack; the batcher sends on a different object -- a new Batch (wrap) or the parts taken out of a received Batch (unwrap) -- whose
stack is empty, so GroupOutput cannot tell through which path it has to leave and raises RuntimeError: the run aborts.
Exit 0 when both lines deliver parts to their sink, 1 otherwise."""
import contextlib, io, sys
from simprocesd.model import System
from simprocesd.model.factory_floor import Source, Sink, PartBatcher, Group, Batch, Part, PartGenerator


class CrateGenerator(PartGenerator):
    def generate_part_helper(self, part_name, part_counter):
        return Batch(part_name, [Part(f'{part_name}.{k}') for k in range(2)])


bad = []
for kind, gen, size in (('wrap: single parts in, batches of 2 out', None, 2),
                        ('unwrap: batches of 2 in, single parts out', CrateGenerator('crate'), None)):
    system = System()
    src = Source(part_generator=gen, cycle_time=1)
    batcher = PartBatcher(name='batcher', output_batch_size=size)
    group = Group('G', [batcher])
    path = group.get_new_group_path('p1', [src])
    sink = Sink(upstream=[path])
    try:
        with contextlib.redirect_stdout(io.StringIO()):
            system.simulate(10, print_summary=False)
        print(f'{kind}: sink received {sink.received_parts_count} parts')
        if sink.received_parts_count == 0:
            bad.append(kind)
    except RuntimeError as e:
        print(f'{kind}: FAIL RuntimeError: {e}')
        bad.append(kind)
sys.exit(1 if bad else 0)
