'''F14: the clock goes backwards by one ulp after a resume.

An event that is due at exactly the instant at which it is paused has no time left; on resume its new time is computed as
    time + (now - paused_at)
which in floating point can be one ulp *less* than now (T + (U - T) < U).  The event is then queued in the past, and when it is
executed the clock decreases.
'''
from simprocesd.model.simulation import Environment, EventType

T, U = 0.41432731294452774, 7.428463953630833
env = Environment()
clock = []
env.schedule_event(T, 7, lambda: clock.append(('due-at-pause', env.now)), EventType.OTHER_LOW_PRIORITY)
env.schedule_event(T, 1, lambda: env.pause_matching_events(7), EventType.OTHER_HIGH_PRIORITY)       # pauses the other event at its own due time
env.schedule_event(U, 1, lambda: (clock.append(('resume', env.now)), env.unpause_matching_events(7)), EventType.OTHER_HIGH_PRIORITY)
env.run(10)
print(clock)
times = [t for _, t in clock]
assert times == sorted(times), f'the clock went backwards: {clock}'
assert clock[1] == ('due-at-pause', U), clock
print('OK')
