'''F13: a work order on a Maintainable that has no `name` attribute.

Maintainable is an interface without a name; Maintainer._record_work_order_datapoint reads the name with
getattr(target, 'name', 'N/A'), i.e. the library expects nameless targets.  The START_WORK / FINISH_WORK event messages
and the cost label dereference target.name directly, after the order has been taken out of the queue, put into the active
list and the capacity has been reserved.
'''
from simprocesd.model import System
from simprocesd.model.factory_floor import Maintainer, Maintainable


class Oven(Maintainable):          # a plain Maintainable, not an Asset
    def __init__(self):
        self.log = []

    def get_work_order_duration(self, tag):
        return 2

    def get_work_order_capacity(self, tag):
        return 1

    def get_work_order_cost(self, tag):
        return 5

    def start_work(self, tag):
        self.log.append(('start', tag))

    def end_work(self, tag):
        self.log.append(('end', tag))


system = System()
mt = Maintainer('mt', capacity = 1)
oven = Oven()
system.simulate(1, print_summary = False)
try:
    accepted = mt.create_work_order(oven, 'clean')
except AttributeError as e:
    raise AssertionError(f'create_work_order raised {e!r}; maintainer left with utilization '
                         f'{mt.total_capacity - mt.available_capacity} of {mt.total_capacity} and no START_WORK event, '
                         f'so the capacity is leaked and every later order for the target is blocked')
assert accepted is True
system.simulate(5, print_summary = False)
assert oven.log == [('start', 'clean'), ('end', 'clean')], oven.log
assert mt.available_capacity == 1
print('OK')
