'''F15: two maintainers working on the same machine.

Each Maintainer refuses to run two orders on one target at a time, but the exclusion is per maintainer.  With two maintainers the
default work orders on one machine can overlap; the first one to finish restores the machine while the other is still in progress,
so the target is not shut down for the duration of the second order.
'''
from simprocesd.model import System
from simprocesd.model.factory_floor import Source, PartProcessor, Sink, Maintainer


class Machine(PartProcessor):
    def get_work_order_duration(self, tag):
        return {'short': 3, 'long': 10}[tag]


system = System()
env = system.env
source = Source('source', cycle_time = 1)
machine = Machine('machine', upstream = [source], cycle_time = 1)
sink = Sink('sink', upstream = [machine])
crew_a = Maintainer('crew_a', capacity = 1)
crew_b = Maintainer('crew_b', capacity = 1)

log = []
machine.add_shutdown_callback(lambda m, is_failure, part: log.append(('down', env.now)))
machine.add_restored_callback(lambda m: log.append(('up', env.now)))
env.schedule_event(5, -5, lambda: crew_a.create_work_order(machine, 'short'))     # 5 .. 8
env.schedule_event(6, -5, lambda: crew_b.create_work_order(machine, 'long'))      # 6 .. 16
samples = []
for t in (7, 9, 12, 15, 17):
    env.schedule_event(t, -5, lambda t = t: samples.append((t, machine.is_operational())))
system.simulate(20, print_summary = False)
print('log', log, 'samples', samples)
work = system.simulation_data
assert dict(samples)[9] is False and dict(samples)[12] is False and dict(samples)[15] is False, \
    f'the machine is operational at {[t for t, up in samples if up and t < 16]} although the work order "long" is in progress on it during [6, 16]; shutdown/restore log: {log}'
assert dict(samples)[17] is True
print('OK')
