"""F9: a single-slot device whose input is unblocked while it still holds a part is stamped as "waiting for a part" at that moment;
it keeps the early stamp when the part leaves and is then preferred over a parallel device that has really been idle longer."""
import random
from simprocesd.model import System
from simprocesd.model.factory_floor import Sink, PartHandler, PartFlowController, Part
from simprocesd.model.simulation import EventType

random.seed(1)
s = System()
U = PartFlowController('U')
A = PartHandler('A', upstream=[U], cycle_time=10)
B = PartHandler('B', upstream=[U], cycle_time=3)
sink = Sink('sink', upstream=[A, B])
env = s._env
where = {}
def give(name, only=None):
    p = Part(name)
    if only is not None:                      # direct hand-over to one device (public API)
        assert only.give_part(p)
    else:
        assert U.give_part(p)
    where[name] = 'A' if (A._part is p or A._output is p) else 'B'
s.simulate(0)
env.schedule_event(0, -1, lambda: give('p1', A), EventType.OTHER_LOW_PRIORITY)      # A busy 0..10
env.schedule_event(1, -1, lambda: give('p2', B), EventType.OTHER_LOW_PRIORITY)      # B busy 1..4, idle since 4
env.schedule_event(2, -1, lambda: setattr(A, 'block_input', True), EventType.OTHER_LOW_PRIORITY)
env.schedule_event(3, -1, lambda: setattr(A, 'block_input', False), EventType.OTHER_LOW_PRIORITY)   # A still holds p1
env.schedule_event(12, -1, lambda: give('p3'), EventType.OTHER_LOW_PRIORITY)       # A idle since 10, B idle since 4
s.simulate(13, print_summary=False)
print('A idle since 10, B idle since 4; stamps:', A.waiting_for_part_start_time, B.waiting_for_part_start_time, '-> p3 went to', where['p3'])
assert where['p3'] == 'B', f"the part went to {where['p3']} although B has been idle since t=4 and A only since t=10 (A carries the stamp {A.waiting_for_part_start_time} from the moment its input was unblocked)"
