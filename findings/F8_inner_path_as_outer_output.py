import random, sys
random.seed(1)
sys.setrecursionlimit(300)
from simprocesd.model import System
from simprocesd.model.factory_floor import Source, Sink, PartProcessor, Group

system = System()
src = Source(cycle_time=1)
m0 = PartProcessor('M0', cycle_time=1)
mi = PartProcessor('MI', cycle_time=1)
inner = Group('inner', [mi])
pi = inner.get_new_group_path('pI', [m0])
outer = Group('outer', [m0, pi])        # input = m0, output = the inner group's path
po = outer.get_new_group_path('pO', [src])
sink = Sink('sink', [po], collect_parts=True)
try:
    system.simulate(20, print_summary=False)
except RecursionError:
    print('RecursionError')
print('sink received', sink.received_parts_count)
for p in sink.collected_parts[:2]:
    print([d.name for d in p.routing_history], [x.name for x in p._group_pathing])
