import random
random.seed(1)
from simprocesd.model import System
from simprocesd.model.factory_floor import Source, Sink, PartProcessor, Group

system = System()
src = Source(cycle_time=1)
m1 = PartProcessor('M1', cycle_time=1)
m2 = PartProcessor('M2', cycle_time=1)
g1 = Group('G1', [m1])
g2 = Group('G2', [m2])
pa = g1.get_new_group_path('pA', [src])
pb = g2.get_new_group_path('pB', [pa])
sink = Sink('sink', [pb], collect_parts=True)
try:
    system.simulate(20, print_summary=False)
except RecursionError as e:
    print('RecursionError')
print('sink received', sink.received_parts_count)
for p in sink.collected_parts[:3]:
    print([d.name for d in p.routing_history], [x.name for x in p._group_pathing])
print('m1 part', m1._part, m1._output, 'm2', m2._part, m2._output)
