"""F19 (C15): with tracing enabled the trace also lists events that were cancelled and therefore never executed, and nothing in their entries
tells them apart: the 'status' field that is there for this purpose is read before Event.execute() sets it and is always ''.
Exit 0 when every trace entry of a cancelled event is marked as such (or cancelled events are not listed), 1 otherwise."""
import json, os, sys, tempfile
home = tempfile.mkdtemp()
os.environ['HOME'] = home
os.makedirs(os.path.join(home, 'Downloads'))
from simprocesd.model import System
from simprocesd.model.simulation import EventType
from simprocesd.model.factory_floor import Source, Sink, PartProcessor

system = System()
src = Source()
m = PartProcessor(upstream=[src], cycle_time=10, name='M')
sink = Sink(upstream=[m])
executed = []
orig_execute = None
from simprocesd.model.simulation import Event
orig_execute = Event.execute
def spy(self):
    was_cancelled = self.cancelled
    orig_execute(self)
    executed.append((self.message, not was_cancelled))
Event.execute = spy
system.simulate(0, print_summary=False)
m.schedule_failure(4, 'breakdown')            # cancels the pending 'finish cycle' event of M, which stays in the queue until t = 10
system.simulate(12, trace=True, print_summary=False)
Event.execute = orig_execute
trace_dir = os.path.join(home, 'Downloads')
files = [os.path.join(dp, f) for dp, _, fs in os.walk(home) for f in fs if f.endswith('_trace.json')]
trace = json.load(open(files[0]))
entries = [trace[k] for k in sorted((k for k in trace if k.isdigit()), key=int)]
processed = executed[-len(entries):]
bad = []
for e, (msg, really_executed) in zip(entries, processed):
    if not really_executed and e.get('status') != 'cancelled':
        bad.append(e)
print(f'{len(entries)} trace entries, {sum(1 for _, ok in processed if not ok)} of the processed events were cancelled')
for e in bad:
    print('FAIL: listed like an executed event although it was cancelled and its action never ran:', {k: e[k] for k in ('time', 'message', 'status')})
sys.exit(1 if bad else 0)
