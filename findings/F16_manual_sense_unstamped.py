"""F16 (C19): a measurement taken with the public sense() of a PeriodicSensor is stored in every probe series and handed to the
on-sense callbacks, but its time is not stored in the time series: from then on data['time'][k] is no longer the time of data[probe][k].
Exit 0 when the series stay aligned, 1 otherwise."""
import sys
from simprocesd.model import System
from simprocesd.model.simulation import EventType
from simprocesd.model.factory_floor import Source, Sink, PartProcessor
from simprocesd.model.sensors import PeriodicSensor, AttributeProbe

system = System()
src = Source()
m = PartProcessor(upstream=[src], cycle_time=1)
sink = Sink(upstream=[m])
probe = AttributeProbe('uptime', m)
sensor = PeriodicSensor(5, [probe])
seen = []
sensor.add_on_sense_callback(lambda s, t, d: seen.append((t, d[0])))
system.simulate(1, print_summary=False)
# a spot check between two periodic measurements, e.g. requested by a maintenance policy
system._env.schedule_event(7, sensor.id, sensor.sense, EventType.OTHER_LOW_PRIORITY, 'spot check')
system.simulate(15, print_summary=False)
times = sensor.data['time']
values = sensor.data[probe]
print('measurements (time, value) seen by the callback:', seen)
print('time series  ', times)
print('probe series ', values)
ok = len(times) == len(values) and list(zip(times, values)) == seen
if not ok:
    print(f'FAIL: {len(values)} values but {len(times)} times; value {values[1]} measured at t=7 is paired with time {times[1]}')
sys.exit(0 if ok else 1)
