"""Observation (DESIGN.md section 8, not a finding of a check): the capacity in use of a Maintainer is a running += / -= float sum; with orders
needing 0.1, 0.7 and 0.2 of capacity 1.0 it does not return to 0 after all three finished (5.55e-17), and an order needing the whole capacity is
never started although nothing is in progress.  Prints what happens; exit 0 always (numerical behaviour is outside what the static rules decide)."""
from simprocesd.model import System
from simprocesd.model.factory_floor import Maintainer, Maintainable, Asset
class T(Maintainable):
    def __init__(s, name, cap, dur): s.name=name; s.cap=cap; s.dur=dur; s.log=[]
    def get_work_order_capacity(s, tag): return s.cap
    def get_work_order_duration(s, tag): return s.dur
    def get_work_order_cost(s, tag): return 0
    def start_work(s, tag): s.log.append(('start', m._env.now))
    def end_work(s, tag): s.log.append(('end', m._env.now))
sys_ = System()
m = Maintainer(capacity=1.0)
a, b, c, d = T('a', .1, 1), T('b', .7, 2), T('c', .2, 3), T('d', 1.0, 1)
sys_.simulate(0)
for t in (a, b, c): m.create_work_order(t)
sys_.simulate(5)
print('util after all finished', m._utilization, 'available', m.available_capacity)
m.create_work_order(d)
sys_.simulate(5)
print(d.log)
