"""F12: an asset's value always equals its starting value plus the sum of its value history -- but add_value on an asset that is not
initialised yet (created before the first simulate(), or a Part made by hand) changes the value and then raises AttributeError while
building the history entry."""
from simprocesd.model import System
from simprocesd.model.factory_floor import Asset

s = System()
a = Asset('a', value=10)
try:
    a.add_value('bonus', 5)
    raised = None
except AttributeError as e:
    raised = e
total = 10 + sum(h[2] for h in a.value_history)
assert a.value == total, f'add_value raised {raised!r} and left value {a.value} with history {a.value_history} (start 10 + history = {total})'
print('ok', a.value, a.value_history)
